/* T-Nest ::= SEQUENCE { k T-Cho, l T-SeqOf OPTIONAL, e T-Enum }   (AUTOMATIC TAGS; k is a CHOICE, hence EXPLICIT [0])
 * T-Cho ::= CHOICE { i INTEGER (0..255), b BOOLEAN, ... }; T-SeqOf ::= SEQUENCE (SIZE(0..2)) OF INTEGER (0..255);
 * T-Enum ::= ENUMERATED { red(0), green(5), blue(10) } */
#include <T-Nest.h>
#define TYPE_T T_Nest_t
#define TYPE_DEF asn_DEF_T_Nest
#define TV_MAXENC 28
struct tval { uint8_t alt; int64_t i; uint8_t b; uint8_t has_l, n; int64_t el[2]; uint8_t eidx; };
struct tv_store { T_SeqOf_t l; long e[2]; long *p[2]; };
static const int64_t tv_nest_enum[3] = { 0, 5, 10 };
static int tv_valid(const struct tval *v) {
    if(v->alt > 1 || v->b > 1 || v->has_l > 1 || v->n > 2 || v->eidx > 2) return 0;
    if(v->alt == 0 && (v->i < 0 || v->i > 255)) return 0;
    for(int j = 0; j < 2; j++) if(j < v->n && (v->el[j] < 0 || v->el[j] > 255)) return 0;
    return 1;
}
static void tv_build(const struct tval *v, TYPE_T *o, struct tv_store *s) {
    memset(o, 0, sizeof(*o)); memset(s, 0, sizeof(*s));
    if(v->alt == 0) { o->k.present = T_Cho_PR_i; o->k.choice.i = (long)v->i; }
    else { o->k.present = T_Cho_PR_b; o->k.choice.b = v->b ? 0xff : 0; }
    if(v->has_l) {
        for(int j = 0; j < 2; j++) { s->e[j] = (long)v->el[j]; s->p[j] = &s->e[j]; }
        s->l.list.array = s->p; s->l.list.count = v->n; s->l.list.size = 2;
        o->l = &s->l;
    }
    o->e = (long)tv_nest_enum[v->eidx];
}
static int tv_match(const struct tval *v, const TYPE_T *o) {
    if(v->alt == 0) { if(o->k.present != T_Cho_PR_i || o->k.choice.i != v->i) return 0; }
    else if(o->k.present != T_Cho_PR_b || !o->k.choice.b != !v->b) return 0;
    if(v->has_l) {
        if(!o->l || o->l->list.count != v->n) return 0;
        for(int j = 0; j < 2; j++) if(j < v->n && (!o->l->list.array || !o->l->list.array[j] || *o->l->list.array[j] != v->el[j])) return 0;
    } else if(o->l) return 0;
    return o->e == tv_nest_enum[v->eidx];
}
static size_t ref_der(const struct tval *v, uint8_t *out, size_t cap) {
    uint8_t kb[8]; struct rbuf k = { kb, 0, sizeof(kb) };
    if(v->alt == 0) der_int_tagged(&k, CL_CTX, 0, v->i); else der_bool_tagged(&k, CL_CTX, 1, v->b);
    uint8_t lb[12]; struct rbuf l = { lb, 0, sizeof(lb) };
    for(int j = 0; j < 2; j++) if(j < v->n) der_int_tagged(&l, CL_UNIV, 2, v->el[j]);
    uint8_t body[28]; struct rbuf b = { body, 0, sizeof(body) };
    x_constructed(&b, CL_CTX, 0, kb, k.n);                 /* [0] EXPLICIT around the CHOICE */
    if(v->has_l) x_constructed(&b, CL_CTX, 1, lb, l.n);     /* [1] IMPLICIT SEQUENCE OF */
    der_int_tagged(&b, CL_CTX, 2, tv_nest_enum[v->eidx]);   /* [2] IMPLICIT ENUMERATED */
    struct rbuf o = { out, 0, cap };
    x_constructed(&o, CL_UNIV, 16, body, b.n);
    return o.n;
}
static size_t ref_oer(const struct tval *v, uint8_t *out, size_t cap) {
    struct rbuf o = { out, 0, cap };
    rb_put(&o, v->has_l ? 0x80 : 0x00);                    /* preamble: one OPTIONAL */
    oer_tag(&o, CL_CTX, v->alt);
    if(v->alt == 0) rb_put(&o, (uint8_t)v->i); else rb_put(&o, v->b ? 0xff : 0);
    if(v->has_l) { oer_quantity(&o, v->n); for(int j = 0; j < 2; j++) if(j < v->n) rb_put(&o, (uint8_t)v->el[j]); }
    oer_enum(&o, tv_nest_enum[v->eidx]);
    return o.n;
}
static size_t ref_uper(const struct tval *v, uint8_t *out, size_t cap) {
    struct bitw w = { out, 0, cap };
    bw_bit(&w, v->has_l);
    bw_bit(&w, 0); uper_constrained(&w, v->alt, 0, 1);
    if(v->alt == 0) uper_constrained(&w, v->i, 0, 255); else bw_bit(&w, v->b);
    if(v->has_l) { uper_constrained(&w, v->n, 0, 2); for(int j = 0; j < 2; j++) if(j < v->n) uper_constrained(&w, v->el[j], 0, 255); }
    uper_constrained(&w, v->eidx, 0, 2);
    return bw_finish(&w);
}
