/* E-MinU ::= INTEGER (MIN..5 | 3..10): effective (MIN..10) */
#include <E-MinU.h>
#define TYPE_T E_MinU_t
#define TYPE_DEF asn_DEF_E_MinU
#define INT_HAS_LB 0
#define INT_LB 0
#define INT_HAS_UB 1
#define INT_UB 10
#define INT_EXT 0
#define INT_EXTRA_VALID(v) (1)
#include "drv/int_common.h"
