/* T-EnumX ::= ENUMERATED { a, b, ..., c }   (a=0, b=1; extension addition c=2) */
#include <T-EnumX.h>
#define TYPE_T T_EnumX_t
#define TYPE_DEF asn_DEF_T_EnumX
#define TV_MAXENC 4
struct tval { uint8_t v; };
struct tv_store { int unused; };
static int tv_valid(const struct tval *t) { return t->v <= 2; }
static void tv_build(const struct tval *t, TYPE_T *o, struct tv_store *s) { (void)s; *o = t->v; }
static int tv_match(const struct tval *t, const TYPE_T *o) { return *o == t->v; }
static size_t ref_der(const struct tval *t, uint8_t *out, size_t cap) { struct rbuf o = { out, 0, cap }; der_int_tagged(&o, CL_UNIV, 10, t->v); return o.n; }
static size_t ref_uper(const struct tval *t, uint8_t *out, size_t cap) {
    struct bitw w = { out, 0, cap };
    if(t->v <= 1) { bw_bit(&w, 0); uper_constrained(&w, t->v, 0, 1); }
    else { bw_bit(&w, 1); uper_nsnnwn(&w, (uint64_t)(t->v - 2)); }       /* X.691 14.3 */
    return bw_finish(&w);
}
static size_t ref_oer(const struct tval *t, uint8_t *out, size_t cap) { struct rbuf o = { out, 0, cap }; oer_enum(&o, t->v); return o.n; }
