/* E-Neg ::= INTEGER (-129..127 | -128..-1): effective (-129..127): 2 octets signed in OER */
#include <E-Neg.h>
#define TYPE_T E_Neg_t
#define TYPE_DEF asn_DEF_E_Neg
#define INT_HAS_LB 1
#define INT_LB -129
#define INT_HAS_UB 1
#define INT_UB 127
#define INT_EXT 0
#define INT_EXTRA_VALID(v) (1)
#include "drv/int_common.h"
