/* E-P256 ::= INTEGER (1..256): exactly 256 values -> 8 bits */
#include <E-P256.h>
#define TYPE_T E_P256_t
#define TYPE_DEF asn_DEF_E_P256
#define INT_HAS_LB 1
#define INT_LB 1
#define INT_HAS_UB 1
#define INT_UB 256
#define INT_EXT 0
#define INT_EXTRA_VALID(v) (1)
#include "drv/int_common.h"
