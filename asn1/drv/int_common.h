/* Common driver for the single-INTEGER corpus types. The including file defines
 * INT_NAME (C identifier of the type), INT_HAS_LB/INT_LB/INT_HAS_UB/INT_UB (root bounds), INT_EXT. */
#define TV_MAXENC 16
struct tval { int64_t v; };
struct tv_store { int unused; };
static int tv_in_root(int64_t v) {
    if(INT_HAS_LB && v < (int64_t)(INT_LB)) return 0;
    if(INT_HAS_UB && v > (int64_t)(INT_UB)) return 0;
    return 1;
}
static int tv_valid(const struct tval *t) {
#ifdef INT_HARNESS_BOUND   /* harness bound (stated in the evidence): |v| <= INT_HARNESS_BOUND */
    if(t->v > (INT_HARNESS_BOUND) || t->v < -(INT_HARNESS_BOUND)) return 0;
#endif
#ifdef INT_EXTRA_VALID
    if(!(INT_EXT && !tv_in_root(t->v)) && !(INT_EXTRA_VALID(t->v))) return 0;   /* holes in the root set */
#endif
    return INT_EXT ? 1 : tv_in_root(t->v);
}
#ifdef INT_WIDE    /* module compiled with -fwide-types: INTEGER_t representation (C13) */
#undef tv_store
struct tv_store_w { uint8_t b[10]; };
#define tv_store tv_store_w
static void tv_build(const struct tval *t, TYPE_T *o, struct tv_store *s) {
    memset(o, 0, sizeof(*o));
    int n = int_octets(t->v);
    for(int i = 0; i < 8; i++) if(i < n) s->b[i] = (uint8_t)((uint64_t)t->v >> (8 * (n - 1 - i)));
    s->b[n] = 0; o->buf = s->b; o->size = (size_t)n;
}
static int tv_match(const struct tval *t, const TYPE_T *o) { intmax_t x; return asn_INTEGER2imax(o, &x) == 0 && x == t->v; }
#else
static void tv_build(const struct tval *t, TYPE_T *o, struct tv_store *s) { (void)s; *o = (TYPE_T)t->v; }
static int tv_match(const struct tval *t, const TYPE_T *o) { return (int64_t)*o == t->v; }
#endif
static size_t ref_der(const struct tval *t, uint8_t *out, size_t cap) {
    struct rbuf o = { out, 0, cap };
    der_int_tagged(&o, CL_UNIV, 2, t->v);
    return o.n;
}
static size_t ref_uper(const struct tval *t, uint8_t *out, size_t cap) {
    struct bitw w = { out, 0, cap };
    int root = tv_in_root(t->v);
    if(INT_EXT) bw_bit(&w, !root);
    if(INT_EXT && !root) uper_unconstrained(&w, t->v);                         /* X.691 12.1 */
    else if(INT_HAS_LB && INT_HAS_UB) uper_constrained(&w, t->v, (int64_t)(INT_LB), (int64_t)(INT_UB));
    else if(INT_HAS_LB) uper_semiconstrained(&w, t->v, (int64_t)(INT_LB));
    else uper_unconstrained(&w, t->v);
    return bw_finish(&w);
}
static size_t ref_oer(const struct tval *t, uint8_t *out, size_t cap) {
    struct rbuf o = { out, 0, cap };
    /* X.696 8.2: constraints with an extension marker are not OER-visible */
    if(INT_EXT) oer_int(&o, t->v, 0, 0, 0, 0, 0);
    else oer_int(&o, t->v, INT_HAS_LB, (int64_t)(INT_LB), INT_HAS_UB, (uint64_t)(INT_UB), (int64_t)(INT_UB));
    return o.n;
}
/* any C value is a structurally well-formed (possibly constraint-violating) INTEGER */
#ifdef INT_UNSIGNED_REPR  /* asn1c represents the type as unsigned long: the driver's int64 covers 0..2^63-1 (stated bound), a negative
                          * int64 would be the C value 2^63.., which satisfies (lb..MAX) */
static int tv_wf(const struct tval *t) { return t->v >= 0; }
#else
static int tv_wf(const struct tval *t) { (void)t; return 1; }
#endif
#define tv_wellformed tv_wf
