/* T-Seq ::= SEQUENCE { a INTEGER (0..255), b BOOLEAN OPTIONAL, c INTEGER (-5..1000) DEFAULT 7, ... }  (AUTOMATIC TAGS) */
#include <T-Seq.h>
#define TYPE_T T_Seq_t
#define TYPE_DEF asn_DEF_T_Seq
#define TV_MAXENC 16
struct tval { int64_t a; uint8_t has_b, b; uint8_t has_c; int64_t c; };
/* the abstract value: c absent == c present with 7 */
static int tv_valid(const struct tval *v) {
    return v->a >= 0 && v->a <= 255 && v->has_b <= 1 && v->b <= 1 && v->has_c <= 1 && (!v->has_c || (v->c >= -5 && v->c <= 1000));
}
static int64_t tv_c(const struct tval *v) { return v->has_c ? v->c : 7; }
struct tv_store { BOOLEAN_t b; long c; };
static void tv_build(const struct tval *v, TYPE_T *o, struct tv_store *s) {
    memset(o, 0, sizeof(*o));
    o->a = (long)v->a;
    if(v->has_b) { s->b = v->b ? 0xff : 0; o->b = &s->b; }
    if(v->has_c) { s->c = (long)v->c; o->c = &s->c; }
}
static int tv_match(const struct tval *v, const TYPE_T *o) {
    if(o->a != v->a) return 0;
    if(v->has_b) { if(!o->b || !*o->b != !v->b) return 0; } else if(o->b) return 0;
    if((o->c ? *o->c : 7) != tv_c(v)) return 0;
    return 1;
}
static size_t ref_der(const struct tval *v, uint8_t *out, size_t cap) {
    uint8_t body[16]; struct rbuf b = { body, 0, sizeof(body) };
    der_int_tagged(&b, CL_CTX, 0, v->a);
    if(v->has_b) der_bool_tagged(&b, CL_CTX, 1, v->b);
    if(tv_c(v) != 7) der_int_tagged(&b, CL_CTX, 2, tv_c(v));   /* X.690 11.5: default value not encoded */
    struct rbuf o = { out, 0, cap };
    der_tag(&o, CL_UNIV | CONSTRUCTED, 16); der_len(&o, b.n); rb_puts(&o, body, b.n);
    return o.n;
}
static size_t ref_uper(const struct tval *v, uint8_t *out, size_t cap) {
    struct bitw w = { out, 0, cap };
    bw_bit(&w, 0);                      /* extension bit: no additions */
    bw_bit(&w, v->has_b);               /* preamble: b */
    bw_bit(&w, tv_c(v) != 7);           /* preamble: c (canonical: absent when default) */
    uper_constrained(&w, v->a, 0, 255);
    if(v->has_b) bw_bit(&w, v->b);
    if(tv_c(v) != 7) uper_constrained(&w, tv_c(v), -5, 1000);
    return bw_finish(&w);
}
static size_t ref_oer(const struct tval *v, uint8_t *out, size_t cap) {
    struct rbuf o = { out, 0, cap };
    /* preamble: extension bit, then one bit per OPTIONAL/DEFAULT, padded */
    rb_put(&o, (uint8_t)((v->has_b ? 0x40 : 0) | (tv_c(v) != 7 ? 0x20 : 0)));
    oer_int(&o, v->a, 1, 0, 1, 255, 255);
    if(v->has_b) rb_put(&o, v->b ? 0xff : 0);
    if(tv_c(v) != 7) oer_int(&o, tv_c(v), 1, -5, 1, 1000, 1000);
    return o.n;
}
static int tv_wf(const struct tval *v) { return v->has_b <= 1 && v->b <= 1 && v->has_c <= 1; }
#define tv_wellformed tv_wf
