/* T-Seq ::= SEQUENCE { a INTEGER (0..255), b BOOLEAN OPTIONAL, c INTEGER (-5..1000) DEFAULT 7, ... }  (AUTOMATIC TAGS) */
#include <T-Seq.h>
#define TYPE_T T_Seq_t
#define TYPE_DEF asn_DEF_T_Seq
#define TV_MAXENC 16
struct tval { int64_t a; uint8_t has_b, b; uint8_t has_c; int64_t c; };
/* the abstract value: c absent == c present with 7 */
static int tv_valid(const struct tval *v) {
    return v->a >= 0 && v->a <= 255 && v->has_b <= 1 && v->b <= 1 && v->has_c <= 1 && (!v->has_c || (v->c >= -5 && v->c <= 1000));
}
static int64_t tv_c(const struct tval *v) { return v->has_c ? v->c : 7; }
struct tv_store { BOOLEAN_t b; long c; };
static void tv_build(const struct tval *v, TYPE_T *o, struct tv_store *s) {
    memset(o, 0, sizeof(*o));
    o->a = (long)v->a;
    if(v->has_b) { s->b = v->b ? 0xff : 0; o->b = &s->b; }
    if(v->has_c) { s->c = (long)v->c; o->c = &s->c; }
}
static int tv_match(const struct tval *v, const TYPE_T *o) {
    if(o->a != v->a) return 0;
    if(v->has_b) { if(!o->b || !*o->b != !v->b) return 0; } else if(o->b) return 0;
    if((o->c ? *o->c : 7) != tv_c(v)) return 0;
    return 1;
}
static size_t ref_der(const struct tval *v, uint8_t *out, size_t cap) {
    uint8_t body[16]; struct rbuf b = { body, 0, sizeof(body) };
    der_int_tagged(&b, CL_CTX, 0, v->a);
    if(v->has_b) der_bool_tagged(&b, CL_CTX, 1, v->b);
    if(tv_c(v) != 7) der_int_tagged(&b, CL_CTX, 2, tv_c(v));   /* X.690 11.5: default value not encoded */
    struct rbuf o = { out, 0, cap };
    x_constructed(&o, CL_UNIV, 16, body, b.n);
    return o.n;
}
static size_t ref_uper(const struct tval *v, uint8_t *out, size_t cap) {
    struct bitw w = { out, 0, cap };
    bw_bit(&w, 0);                      /* extension bit: no additions */
    bw_bit(&w, v->has_b);               /* preamble: b */
    bw_bit(&w, tv_c(v) != 7);           /* preamble: c (canonical: absent when default) */
    uper_constrained(&w, v->a, 0, 255);
    if(v->has_b) bw_bit(&w, v->b);
    if(tv_c(v) != 7) uper_constrained(&w, tv_c(v), -5, 1000);
    return bw_finish(&w);
}
static size_t ref_oer(const struct tval *v, uint8_t *out, size_t cap) {
    struct rbuf o = { out, 0, cap };
    /* preamble: extension bit, then one bit per OPTIONAL/DEFAULT, padded */
    rb_put(&o, (uint8_t)((v->has_b ? 0x40 : 0) | (tv_c(v) != 7 ? 0x20 : 0)));
    oer_int(&o, v->a, 1, 0, 1, 255, 255);
    if(v->has_b) rb_put(&o, v->b ? 0xff : 0);
    if(tv_c(v) != 7) oer_int(&o, tv_c(v), 1, -5, 1, 1000, 1000);
    return o.n;
}
static int tv_wf(const struct tval *v) { return v->has_b <= 1 && v->b <= 1 && v->has_c <= 1; }
#define tv_wellformed tv_wf

/* ---- C03: alternative valid encodings of the same value ---- */
#define TV_HAS_VARIANT 1
struct tvariant { uint8_t dflt_present; uint8_t unk; uint8_t unkval; uint8_t unklen; };
/* unk: 0 none, 1 primitive unknown addition [3] of unklen (0..2) octets, 2 constructed unknown addition [3]
 * holding one OCTET STRING of unklen octets (its own length form may be indefinite) */
static int tvar_valid(const struct tvariant *x) { return x->dflt_present <= 1 && x->unk <= 2 && x->unklen <= 2; }
/* BER: DEFAULT component may be present with the default value; an unknown extension addition [3] may follow */
static size_t ref_ber_variant(const struct tval *v, const struct tvariant *x, uint8_t *out, size_t cap) {
    uint8_t body[32]; struct rbuf b = { body, 0, sizeof(body) };
    der_int_tagged(&b, CL_CTX, 0, v->a);
    if(v->has_b) der_bool_tagged(&b, CL_CTX, 1, v->b);
    if(tv_c(v) != 7 || x->dflt_present) der_int_tagged(&b, CL_CTX, 2, tv_c(v));
    uint8_t uv[2] = { x->unkval, (uint8_t)~x->unkval };
    if(x->unk == 1) der_octets_tagged(&b, CL_CTX, 3, uv, x->unklen);
    else if(x->unk == 2) {
        uint8_t inner[6]; struct rbuf ib = { inner, 0, sizeof(inner) };
        der_octets_tagged(&ib, CL_UNIV, 4, uv, x->unklen);
        x_constructed(&b, CL_CTX, 3, inner, ib.n);
    }
    struct rbuf o = { out, 0, cap };
    x_constructed(&o, CL_UNIV, 16, body, b.n);
    return o.n;
}
/* UPER with one unknown extension addition (X.691 19.7-19.9) */
static size_t ref_uper_unk(const struct tval *v, const struct tvariant *x, uint8_t *out, size_t cap) {
    struct bitw w = { out, 0, cap };
    bw_bit(&w, 1);
    bw_bit(&w, v->has_b); bw_bit(&w, tv_c(v) != 7 || x->dflt_present);
    uper_constrained(&w, v->a, 0, 255);
    if(v->has_b) bw_bit(&w, v->b);
    if(tv_c(v) != 7 || x->dflt_present) uper_constrained(&w, tv_c(v), -5, 1000);
    uper_nsnnwn(&w, 1 - 1); bw_bit(&w, 1);
    uper_length(&w, 1); bw_bits(&w, x->unkval, 8);
    return bw_finish(&w);
}
/* OER with one unknown extension addition (X.696 16.4) */
static size_t ref_oer_unk(const struct tval *v, const struct tvariant *x, uint8_t *out, size_t cap) {
    struct rbuf o = { out, 0, cap };
    int cp = tv_c(v) != 7 || x->dflt_present;
    rb_put(&o, (uint8_t)(0x80 | (v->has_b ? 0x40 : 0) | (cp ? 0x20 : 0)));
    oer_int(&o, v->a, 1, 0, 1, 255, 255);
    if(v->has_b) rb_put(&o, v->b ? 0xff : 0);
    if(cp) oer_int(&o, tv_c(v), 1, -5, 1, 1000, 1000);
    oer_len(&o, 2); rb_put(&o, 7); rb_put(&o, 0x80);
    oer_len(&o, 1); rb_put(&o, x->unkval);
    return o.n;
}

/* ---- C06: same abstract value, different representation: DEFAULT stored explicitly vs left absent ---- */
#define TV_HAS_ALT 1
struct talt { uint8_t materialise; };
static int talt_valid(const struct talt *a) { return a->materialise <= 1; }
static void tv_build_alt(const struct tval *v, const struct talt *a, TYPE_T *o, struct tv_store *s) {
    tv_build(v, o, s);
    if(a->materialise && !o->c) { s->c = 7; o->c = &s->c; }          /* c present and equal to the default */
    else if(!a->materialise && o->c && *o->c == 7) o->c = 0;         /* c absent */
}
