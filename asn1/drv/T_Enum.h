/* T-Enum ::= ENUMERATED { red(0), green(5), blue(10) } */
#include <T-Enum.h>
#define TYPE_T T_Enum_t
#define TYPE_DEF asn_DEF_T_Enum
#define TV_MAXENC 4
struct tval { uint8_t idx; };   /* position in the sorted root enumeration */
struct tv_store { int unused; };
static const int64_t tv_enum_vals[3] = { 0, 5, 10 };
static int tv_valid(const struct tval *t) { return t->idx < 3; }
static void tv_build(const struct tval *t, TYPE_T *o, struct tv_store *s) { (void)s; *o = (long)tv_enum_vals[t->idx]; }
static int tv_match(const struct tval *t, const TYPE_T *o) { return *o == tv_enum_vals[t->idx]; }
static size_t ref_der(const struct tval *t, uint8_t *out, size_t cap) { struct rbuf o = { out, 0, cap }; der_int_tagged(&o, CL_UNIV, 10, tv_enum_vals[t->idx]); return o.n; }
static size_t ref_uper(const struct tval *t, uint8_t *out, size_t cap) { struct bitw w = { out, 0, cap }; uper_constrained(&w, t->idx, 0, 2); return bw_finish(&w); }
static size_t ref_oer(const struct tval *t, uint8_t *out, size_t cap) { struct rbuf o = { out, 0, cap }; oer_enum(&o, tv_enum_vals[t->idx]); return o.n; }
