/* T-Int8 ::= INTEGER (0..255) */
#include <T-Int8.h>
#define TYPE_T T_Int8_t
#define TYPE_DEF asn_DEF_T_Int8
#define INT_HAS_LB 1
#define INT_LB 0
#define INT_HAS_UB 1
#define INT_UB 255
#define INT_EXT 0
#include "drv/int_common.h"
