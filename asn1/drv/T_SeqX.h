/* T-SeqX ::= SEQUENCE { a INTEGER (0..7), ..., x BOOLEAN OPTIONAL, y INTEGER (0..255) OPTIONAL }  (AUTOMATIC TAGS) */
#include <T-SeqX.h>
#define TYPE_T T_SeqX_t
#define TYPE_DEF asn_DEF_T_SeqX
#define TV_MAXENC 20
struct tval { int64_t a; uint8_t has_x, x, has_y; int64_t y; };
struct tv_store { BOOLEAN_t x; long y; };
static int tv_valid(const struct tval *v) {
    return v->a >= 0 && v->a <= 7 && v->has_x <= 1 && v->x <= 1 && v->has_y <= 1 && (!v->has_y || (v->y >= 0 && v->y <= 255));
}
static void tv_build(const struct tval *v, TYPE_T *o, struct tv_store *s) {
    memset(o, 0, sizeof(*o));
    o->a = (long)v->a;
    if(v->has_x) { s->x = v->x ? 0xff : 0; o->x = &s->x; }
    if(v->has_y) { s->y = (long)v->y; o->y = &s->y; }
}
static int tv_match(const struct tval *v, const TYPE_T *o) {
    if(o->a != v->a) return 0;
    if(v->has_x) { if(!o->x || !*o->x != !v->x) return 0; } else if(o->x) return 0;
    if(v->has_y) { if(!o->y || *o->y != v->y) return 0; } else if(o->y) return 0;
    return 1;
}
static size_t ref_der(const struct tval *v, uint8_t *out, size_t cap) {
    uint8_t body[16]; struct rbuf b = { body, 0, sizeof(body) };
    der_int_tagged(&b, CL_CTX, 0, v->a);
    if(v->has_x) der_bool_tagged(&b, CL_CTX, 1, v->x);
    if(v->has_y) der_int_tagged(&b, CL_CTX, 2, v->y);
    struct rbuf o = { out, 0, cap };
    x_constructed(&o, CL_UNIV, 16, body, b.n);
    return o.n;
}
static size_t ref_uper(const struct tval *v, uint8_t *out, size_t cap) {
    struct bitw w = { out, 0, cap };
    int ext = v->has_x || v->has_y;
    bw_bit(&w, ext);
    uper_constrained(&w, v->a, 0, 7);
    if(ext) {
        /* X.691 19.7-19.9: number of additions (2) as normally small length, presence bitmap, open types */
        uper_nsnnwn(&w, 2 - 1);
        bw_bit(&w, v->has_x); bw_bit(&w, v->has_y);
        if(v->has_x) { uper_length(&w, 1); bw_bit(&w, v->x); bw_bits(&w, 0, 7); }
        if(v->has_y) { uper_length(&w, 1); bw_bits(&w, (uint64_t)v->y, 8); }
    }
    return bw_finish(&w);
}
static size_t ref_oer(const struct tval *v, uint8_t *out, size_t cap) {
    struct rbuf o = { out, 0, cap };
    int ext = v->has_x || v->has_y;
    rb_put(&o, ext ? 0x80 : 0x00);                 /* preamble: extension bit only (no OPTIONAL in the root) */
    oer_int(&o, v->a, 1, 0, 1, 7, 7);
    if(ext) {
        /* X.696 16.4: presence bitmap as a length-prefixed bit string: unused-bits octet + bitmap */
        oer_len(&o, 2); rb_put(&o, 6); rb_put(&o, (uint8_t)((v->has_x ? 0x80 : 0) | (v->has_y ? 0x40 : 0)));
        if(v->has_x) { oer_len(&o, 1); rb_put(&o, v->x ? 0xff : 0); }
        if(v->has_y) { oer_len(&o, 1); rb_put(&o, (uint8_t)v->y); }
    }
    return o.n;
}
static int tv_wf(const struct tval *v) { return v->has_x <= 1 && v->x <= 1 && v->has_y <= 1; }
#define tv_wellformed tv_wf
