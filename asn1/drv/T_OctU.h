/* T-OctU ::= OCTET STRING   (harness bound: <= 3 octets) */
#include <T-OctU.h>
#define TYPE_T T_OctU_t
#define TYPE_DEF asn_DEF_T_OctU
#define OCT_MODE 2
#define OCT_LB 0
#define OCT_UB 3
#include "drv/oct_common.h"
