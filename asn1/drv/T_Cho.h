/* T-Cho ::= CHOICE { i INTEGER (0..255), b BOOLEAN, ... }  (AUTOMATIC TAGS) */
#include <T-Cho.h>
#define TYPE_T T_Cho_t
#define TYPE_DEF asn_DEF_T_Cho
#define TV_MAXENC 8
struct tval { uint8_t alt; int64_t i; uint8_t b; };
struct tv_store { long i; BOOLEAN_t b; };
static int tv_valid(const struct tval *v) { return v->alt <= 1 && (v->alt == 0 ? (v->i >= 0 && v->i <= 255) : v->b <= 1); }
static void tv_build(const struct tval *v, TYPE_T *o, struct tv_store *s) {
    (void)s; memset(o, 0, sizeof(*o));
#ifdef INDIRECT_CHOICE   /* module compiled with -findirect-choice: alternatives are pointers (C13) */
    if(v->alt == 0) { o->present = T_Cho_PR_i; s->i = (long)v->i; o->choice.i = &s->i; }
    else if(v->alt == 1) { o->present = T_Cho_PR_b; s->b = v->b ? 0xff : 0; o->choice.b = &s->b; }
#else
    if(v->alt == 0) { o->present = T_Cho_PR_i; o->choice.i = (long)v->i; }
    else if(v->alt == 1) { o->present = T_Cho_PR_b; o->choice.b = v->b ? 0xff : 0; }
#endif
    else o->present = (T_Cho_PR)(v->alt == 2 ? 0 : v->alt);      /* ill-formed: nothing selected / out of range */
}
static int tv_match(const struct tval *v, const TYPE_T *o) {
#ifdef INDIRECT_CHOICE
    if(v->alt == 0) return o->present == T_Cho_PR_i && o->choice.i && *o->choice.i == v->i;
    return o->present == T_Cho_PR_b && o->choice.b && !*o->choice.b == !v->b;
#else
    if(v->alt == 0) return o->present == T_Cho_PR_i && o->choice.i == v->i;
    return o->present == T_Cho_PR_b && !o->choice.b == !v->b;
#endif
}
static size_t ref_der(const struct tval *v, uint8_t *out, size_t cap) {
    struct rbuf o = { out, 0, cap };
    if(v->alt == 0) der_int_tagged(&o, CL_CTX, 0, v->i); else der_bool_tagged(&o, CL_CTX, 1, v->b);
    return o.n;
}
static size_t ref_uper(const struct tval *v, uint8_t *out, size_t cap) {
    struct bitw w = { out, 0, cap };
    bw_bit(&w, 0);                          /* extension bit */
    uper_constrained(&w, v->alt, 0, 1);     /* X.691 23.6: index */
    if(v->alt == 0) uper_constrained(&w, v->i, 0, 255); else bw_bit(&w, v->b);
    return bw_finish(&w);
}
static size_t ref_oer(const struct tval *v, uint8_t *out, size_t cap) {
    struct rbuf o = { out, 0, cap };
    oer_tag(&o, CL_CTX, v->alt);            /* X.696 20.1 */
    if(v->alt == 0) oer_int(&o, v->i, 1, 0, 1, 255, 255); else rb_put(&o, v->b ? 0xff : 0);
    return o.n;
}
static int tv_wf(const struct tval *v) { return v->b <= 1; }
#define tv_wellformed tv_wf
