/* E-Exc ::= INTEGER (1..30 EXCEPT 7): PER/OER-visible part is (1..30) (X.691 B.2.2.? exclusions are not visible); 7 is not a value */
#include <E-Exc.h>
#define TYPE_T E_Exc_t
#define TYPE_DEF asn_DEF_E_Exc
#define INT_HAS_LB 1
#define INT_LB 1
#define INT_HAS_UB 1
#define INT_UB 30
#define INT_EXT 0
#define INT_EXTRA_VALID(v) ((v) != 7)
#include "drv/int_common.h"
