/* T-IntW ::= INTEGER, compiled with -fwide-types: INTEGER_t {buf,size}; values of up to 8 content octets */
#include <T-IntW.h>
#define TYPE_T T_IntW_t
#define TYPE_DEF asn_DEF_T_IntW
#define TV_MAXENC 16
struct tval { int64_t v; };
struct tv_store { uint8_t b[12]; };
static int tv_valid(const struct tval *t) { (void)t; return 1; }
static void tv_put(const struct tval *t, TYPE_T *o, struct tv_store *s, int pad) {
    memset(o, 0, sizeof(*o));
    int n = int_octets(t->v);
    for(int i = 0; i < pad; i++) s->b[i] = t->v < 0 ? 0xff : 0x00;     /* redundant sign octets */
    for(int i = 0; i < 8; i++) if(i < n) s->b[pad + i] = (uint8_t)((uint64_t)t->v >> (8 * (n - 1 - i)));
    s->b[pad + n] = 0;
    o->buf = s->b; o->size = (size_t)(pad + n);
}
static void tv_build(const struct tval *t, TYPE_T *o, struct tv_store *s) { tv_put(t, o, s, 0); }
static int tv_match(const struct tval *t, const TYPE_T *o) {
    intmax_t x;
    return asn_INTEGER2imax(o, &x) == 0 && x == t->v;
}
static size_t ref_der(const struct tval *t, uint8_t *out, size_t cap) { struct rbuf o = { out, 0, cap }; der_int_tagged(&o, CL_UNIV, 2, t->v); return o.n; }
static size_t ref_uper(const struct tval *t, uint8_t *out, size_t cap) { struct bitw w = { out, 0, cap }; uper_unconstrained(&w, t->v); return bw_finish(&w); }
static size_t ref_oer(const struct tval *t, uint8_t *out, size_t cap) { struct rbuf o = { out, 0, cap }; oer_int(&o, t->v, 0, 0, 0, 0, 0); return o.n; }
/* ---- C06: redundant leading sign octets ---- */
#define TV_HAS_ALT 1
struct talt { uint8_t pad; };
static int talt_valid(const struct talt *a) { return a->pad <= 2; }
static void tv_build_alt(const struct tval *t, const struct talt *a, TYPE_T *o, struct tv_store *s) { tv_put(t, o, s, a->pad); }
