/* T-IntX ::= INTEGER (1..10, ...) */
#include <T-IntX.h>
#define TYPE_T T_IntX_t
#define TYPE_DEF asn_DEF_T_IntX
#define INT_HAS_LB 1
#define INT_LB 1
#define INT_HAS_UB 1
#define INT_UB 10
#define INT_EXT 1
#include "drv/int_common.h"
