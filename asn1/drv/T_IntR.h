/* T-IntR ::= INTEGER (-5..1000) */
#include <T-IntR.h>
#define TYPE_T T_IntR_t
#define TYPE_DEF asn_DEF_T_IntR
#define INT_HAS_LB 1
#define INT_LB -5
#define INT_HAS_UB 1
#define INT_UB 1000
#define INT_EXT 0
#include "drv/int_common.h"
