/* T-SeqOf ::= SEQUENCE (SIZE(0..2)) OF INTEGER (0..255) */
#include <T-SeqOf.h>
#define TYPE_T T_SeqOf_t
#define TYPE_DEF asn_DEF_T_SeqOf
#define TV_MAXENC 12
struct tval { uint8_t n; int64_t e[2]; };
struct tv_store { long e[2]; long *p[2]; };
static int tv_valid(const struct tval *v) {
    if(v->n > 2) return 0;
    for(int i = 0; i < 2; i++) if(i < v->n && (v->e[i] < 0 || v->e[i] > 255)) return 0;
    return 1;
}
static void tv_build(const struct tval *v, TYPE_T *o, struct tv_store *s) {
    memset(o, 0, sizeof(*o));
    for(int i = 0; i < 2; i++) { s->e[i] = (long)v->e[i]; s->p[i] = &s->e[i]; }
    o->list.array = s->p; o->list.count = v->n; o->list.size = 2;
}
static int tv_match(const struct tval *v, const TYPE_T *o) {
    if(o->list.count != v->n) return 0;
    for(int i = 0; i < 2; i++) if(i < v->n && (!o->list.array || !o->list.array[i] || *o->list.array[i] != v->e[i])) return 0;
    return 1;
}
static size_t ref_der(const struct tval *v, uint8_t *out, size_t cap) {
    uint8_t body[12]; struct rbuf b = { body, 0, sizeof(body) };
    for(int i = 0; i < 2; i++) if(i < v->n) der_int_tagged(&b, CL_UNIV, 2, v->e[i]);
    struct rbuf o = { out, 0, cap };
    x_constructed(&o, CL_UNIV, 16, body, b.n);
    return o.n;
}
static size_t ref_uper(const struct tval *v, uint8_t *out, size_t cap) {
    struct bitw w = { out, 0, cap };
    uper_constrained(&w, v->n, 0, 2);
    for(int i = 0; i < 2; i++) if(i < v->n) uper_constrained(&w, v->e[i], 0, 255);
    return bw_finish(&w);
}
static size_t ref_oer(const struct tval *v, uint8_t *out, size_t cap) {
    struct rbuf o = { out, 0, cap };
    oer_quantity(&o, v->n);
    for(int i = 0; i < 2; i++) if(i < v->n) rb_put(&o, (uint8_t)v->e[i]);
    return o.n;
}
static int tv_wf(const struct tval *v) { return v->n <= 2; }
#define tv_wellformed tv_wf
