/* T-Oct ::= OCTET STRING (SIZE(0..3)) */
#include <T-Oct.h>
#define TYPE_T T_Oct_t
#define TYPE_DEF asn_DEF_T_Oct
#define OCT_MODE 0
#define OCT_LB 0
#define OCT_UB 3
#include "drv/oct_common.h"
