/* T-Null ::= NULL */
#include <T-Null.h>
#define TYPE_T T_Null_t
#define TYPE_DEF asn_DEF_T_Null
#define TV_MAXENC 4
struct tval { uint8_t dummy; };
struct tv_store { int unused; };
static int tv_valid(const struct tval *t) { return t->dummy == 0; }
static void tv_build(const struct tval *t, TYPE_T *o, struct tv_store *s) { (void)s; (void)t; *o = 0; }
static int tv_match(const struct tval *t, const TYPE_T *o) { (void)t; (void)o; return 1; }
static size_t ref_der(const struct tval *t, uint8_t *out, size_t cap) { struct rbuf o = { out, 0, cap }; der_tag(&o, CL_UNIV, 5); x_len(&o, 0); return o.n; }
static size_t ref_uper(const struct tval *t, uint8_t *out, size_t cap) { struct bitw w = { out, 0, cap }; return bw_finish(&w); }
static size_t ref_oer(const struct tval *t, uint8_t *out, size_t cap) { (void)out; (void)cap; return 0; }
