/* T-Bool ::= BOOLEAN */
#include <T-Bool.h>
#define TYPE_T T_Bool_t
#define TYPE_DEF asn_DEF_T_Bool
#define TV_MAXENC 4
struct tval { uint8_t b; };
struct tv_store { int unused; };
static int tv_valid(const struct tval *t) { return t->b <= 1; }
static void tv_build(const struct tval *t, TYPE_T *o, struct tv_store *s) { (void)s; *o = t->b ? 1 : 0; }
static int tv_match(const struct tval *t, const TYPE_T *o) { return !*o == !t->b; }
static size_t ref_der(const struct tval *t, uint8_t *out, size_t cap) { struct rbuf o = { out, 0, cap }; der_bool_tagged(&o, CL_UNIV, 1, t->b); return o.n; }
static size_t ref_uper(const struct tval *t, uint8_t *out, size_t cap) { struct bitw w = { out, 0, cap }; bw_bit(&w, t->b); return bw_finish(&w); }
static size_t ref_oer(const struct tval *t, uint8_t *out, size_t cap) { struct rbuf o = { out, 0, cap }; rb_put(&o, t->b ? 0xff : 0); return o.n; }
