/* T-Set ::= SET { a INTEGER (0..255), b BOOLEAN, c NULL OPTIONAL }  (AUTOMATIC TAGS; asn1c has no OER codec for SET) */
#include <T-Set.h>
#define TYPE_T T_Set_t
#define TYPE_DEF asn_DEF_T_Set
#define TV_MAXENC 16
#define TV_NO_OER 1
struct tval { int64_t a; uint8_t b, has_c; };
struct tv_store { NULL_t c; };
static int tv_valid(const struct tval *v) { return v->a >= 0 && v->a <= 255 && v->b <= 1 && v->has_c <= 1; }
static void tv_build(const struct tval *v, TYPE_T *o, struct tv_store *s) {
    memset(o, 0, sizeof(*o));
    o->a = (long)v->a; ASN_SET_MKPRESENT(o->_presence_map, T_Set_PR_a);
    o->b = v->b ? 0xff : 0; ASN_SET_MKPRESENT(o->_presence_map, T_Set_PR_b);
    if(v->has_c) { s->c = 0; o->c = &s->c; ASN_SET_MKPRESENT(o->_presence_map, T_Set_PR_c); }
}
static int tv_match(const struct tval *v, const TYPE_T *o) {
    if(o->a != v->a || !o->b != !v->b) return 0;
    if(v->has_c ? !o->c : !!o->c) return 0;
    return 1;
}
static size_t ref_der(const struct tval *v, uint8_t *out, size_t cap) {
    uint8_t body[16]; struct rbuf b = { body, 0, sizeof(body) };
    der_int_tagged(&b, CL_CTX, 0, v->a);              /* X.690 10.3: canonical tag order */
    der_bool_tagged(&b, CL_CTX, 1, v->b);
    if(v->has_c) { der_tag(&b, CL_CTX, 2); x_len(&b, 0); }
    struct rbuf o = { out, 0, cap };
    x_constructed(&o, CL_UNIV, 17, body, b.n);
    return o.n;
}
static size_t ref_uper(const struct tval *v, uint8_t *out, size_t cap) {
    struct bitw w = { out, 0, cap };
    bw_bit(&w, v->has_c);
    uper_constrained(&w, v->a, 0, 255);
    bw_bit(&w, v->b);
    return bw_finish(&w);
}
static size_t ref_oer(const struct tval *v, uint8_t *out, size_t cap) { (void)v; (void)out; (void)cap; return 0; }

/* ---- C03: SET components in any order (X.690 8.11) ---- */
#define TV_HAS_VARIANT 1
struct tvariant { uint8_t perm; };
static int tvar_valid(const struct tvariant *x) { return x->perm < 6; }
static size_t ref_ber_variant(const struct tval *v, const struct tvariant *x, uint8_t *out, size_t cap) {
    static const uint8_t P[6][3] = { {0,1,2}, {0,2,1}, {1,0,2}, {1,2,0}, {2,0,1}, {2,1,0} };
    uint8_t body[24]; struct rbuf b = { body, 0, sizeof(body) };
    for(int i = 0; i < 3; i++) {
        int m = P[x->perm][i];
        if(m == 0) der_int_tagged(&b, CL_CTX, 0, v->a);
        else if(m == 1) der_bool_tagged(&b, CL_CTX, 1, v->b);
        else if(v->has_c) { der_tag(&b, CL_CTX, 2); x_len(&b, 0); }
    }
    struct rbuf o = { out, 0, cap };
    x_constructed(&o, CL_UNIV, 17, body, b.n);
    return o.n;
}
