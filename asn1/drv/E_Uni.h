/* E-Uni ::= INTEGER (1..10 | 5..20): effective constraint (1..20) */
#include <E-Uni.h>
#define TYPE_T E_Uni_t
#define TYPE_DEF asn_DEF_E_Uni
#define INT_HAS_LB 1
#define INT_LB 1
#define INT_HAS_UB 1
#define INT_UB 20
#define INT_EXT 0
#define INT_EXTRA_VALID(v) (1)
#include "drv/int_common.h"
