/* T-Vis ::= VisibleString (SIZE(1..3)) */
#include <T-Vis.h>
#define TYPE_T T_Vis_t
#define TYPE_DEF asn_DEF_T_Vis
#define TV_MAXENC 8
struct tval { uint8_t len; uint8_t c[3]; };
struct tv_store { uint8_t b[4]; };
static int tv_valid(const struct tval *t) {
    if(t->len < 1 || t->len > 3) return 0;
    for(int i = 0; i < 3; i++) if(i < t->len && (t->c[i] < 0x20 || t->c[i] > 0x7e)) return 0;   /* X.680 41.4 VisibleString: ISO 646 G set + SPACE, no DEL */
    return 1;
}
/* C08 explores constraint-violating strings too: any length 0..3, any octets */
static int tv_wf(const struct tval *t) { return t->len <= 3; }
#define tv_wellformed tv_wf
static void tv_build(const struct tval *t, TYPE_T *o, struct tv_store *s) {
    memset(o, 0, sizeof(*o));
    for(int i = 0; i < 3; i++) s->b[i] = t->c[i];
    s->b[3] = 0; o->buf = s->b; o->size = t->len;
}
static int tv_match(const struct tval *t, const TYPE_T *o) {
    if(o->size != t->len) return 0;
    for(int i = 0; i < 3; i++) if(i < t->len && (!o->buf || o->buf[i] != t->c[i])) return 0;
    return 1;
}
static size_t ref_der(const struct tval *t, uint8_t *out, size_t cap) { struct rbuf o = { out, 0, cap }; der_octets_tagged(&o, CL_UNIV, 26, t->c, t->len); return o.n; }
static size_t ref_uper(const struct tval *t, uint8_t *out, size_t cap) {
    struct bitw w = { out, 0, cap };
    uper_constrained(&w, t->len, 1, 3);
    for(int i = 0; i < 3; i++) if(i < t->len) bw_bits(&w, t->c[i], 7);      /* X.691 30.5: 7 bits per IA5 character */
    return bw_finish(&w);
}
static size_t ref_oer(const struct tval *t, uint8_t *out, size_t cap) { struct rbuf o = { out, 0, cap }; oer_len(&o, t->len); rb_puts(&o, t->c, t->len); return o.n; }
