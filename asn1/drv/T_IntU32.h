/* T-IntU32 ::= INTEGER (0..4294967295) */
#include <T-IntU32.h>
#define TYPE_T T_IntU32_t
#define TYPE_DEF asn_DEF_T_IntU32
#define INT_HAS_LB 1
#define INT_LB 0
#define INT_HAS_UB 1
#define INT_UB 4294967295LL
#define INT_EXT 0
#include "drv/int_common.h"
