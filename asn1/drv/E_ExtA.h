/* E-ExtA ::= INTEGER (1..10, ..., 20..30): root (1..10), extensible */
#include <E-ExtA.h>
#define TYPE_T E_ExtA_t
#define TYPE_DEF asn_DEF_E_ExtA
#define INT_HAS_LB 1
#define INT_LB 1
#define INT_HAS_UB 1
#define INT_UB 10
#define INT_EXT 1
#define INT_EXTRA_VALID(v) (1)
#include "drv/int_common.h"
