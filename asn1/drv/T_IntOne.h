/* T-IntOne ::= INTEGER (7..7) */
#include <T-IntOne.h>
#define TYPE_T T_IntOne_t
#define TYPE_DEF asn_DEF_T_IntOne
#define INT_HAS_LB 1
#define INT_LB 7
#define INT_HAS_UB 1
#define INT_UB 7
#define INT_EXT 0
#include "drv/int_common.h"
