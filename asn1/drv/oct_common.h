/* Common driver for OCTET STRING corpus types; harness bound: at most 3 octets */
#define TV_MAXENC 8
#define OCT_HMAX 3
struct tval { uint8_t len; uint8_t b[OCT_HMAX]; };
struct tv_store { uint8_t b[OCT_HMAX + 1]; };
static int tv_valid(const struct tval *t) {
    if(t->len > OCT_HMAX) return 0;
    if(OCT_MODE != 2 && (t->len < OCT_LB || t->len > OCT_UB)) return 0;
    return 1;
}
static void tv_build(const struct tval *t, TYPE_T *o, struct tv_store *s) {
    memset(o, 0, sizeof(*o));
    for(int i = 0; i < OCT_HMAX; i++) s->b[i] = t->b[i];
    s->b[OCT_HMAX] = 0;
    o->buf = s->b; o->size = t->len;
}
static int tv_match(const struct tval *t, const TYPE_T *o) {
    if(o->size != t->len) return 0;
    for(int i = 0; i < OCT_HMAX; i++) if(i < t->len && (!o->buf || o->buf[i] != t->b[i])) return 0;
    return 1;
}
static size_t ref_der(const struct tval *t, uint8_t *out, size_t cap) { struct rbuf o = { out, 0, cap }; der_octets_tagged(&o, CL_UNIV, 4, t->b, t->len); return o.n; }
static size_t ref_uper(const struct tval *t, uint8_t *out, size_t cap) {
    struct bitw w = { out, 0, cap };
    if(OCT_MODE == 0) uper_constrained(&w, t->len, OCT_LB, OCT_UB);    /* X.691 17.7: constrained length */
    else if(OCT_MODE == 2) uper_length(&w, t->len);                     /* 17.8: general length */
    bw_octets(&w, t->b, t->len);                                        /* fixed size (<= 64K): no length */
    return bw_finish(&w);
}
static size_t ref_oer(const struct tval *t, uint8_t *out, size_t cap) {
    struct rbuf o = { out, 0, cap };
    if(OCT_MODE != 1) oer_len(&o, t->len);                               /* X.696 14: fixed size has no length */
    rb_puts(&o, t->b, t->len);
    return o.n;
}
static int tv_wf(const struct tval *v) { return v->len <= OCT_HMAX; }
#define tv_wellformed tv_wf

/* ---- C03: constructed (segmented) OCTET STRING, X.690 8.7.3 ---- */
#define TV_HAS_VARIANT 1
struct tvariant { uint8_t seg; uint8_t cut; };
static int tvar_valid(const struct tvariant *x) { return x->seg <= 1 && x->cut <= OCT_HMAX; }
static size_t ref_ber_variant(const struct tval *v, const struct tvariant *x, uint8_t *out, size_t cap) {
    struct rbuf o = { out, 0, cap };
    if(!x->seg || x->cut > v->len) { der_octets_tagged(&o, CL_UNIV, 4, v->b, v->len); return o.n; }
    uint8_t body[16]; struct rbuf b = { body, 0, sizeof(body) };
    der_octets_tagged(&b, CL_UNIV, 4, v->b, x->cut);
    der_octets_tagged(&b, CL_UNIV, 4, v->b + x->cut, (size_t)(v->len - x->cut));
    x_constructed(&o, CL_UNIV, 4, body, b.n);
    return o.n;
}
