/* T-Ios ::= SEQUENCE { id VCLASS.&id({VSet}), val VCLASS.&Type({VSet}{@id}) }
 * VSet = { BOOLEAN BY 1 | INTEGER (0..255) BY 2 | OCTET STRING (SIZE(1)) BY 7 }   (AUTOMATIC TAGS) */
#include <T-Ios.h>
#define TYPE_T T_Ios_t
#define TYPE_DEF asn_DEF_T_Ios
#define TV_MAXENC 16
struct tval { uint8_t row; uint8_t b; int64_t i; uint8_t o; };
struct tv_store { uint8_t ob[2]; };
static const int64_t tv_ids[3] = { 1, 2, 7 };
static int tv_valid(const struct tval *v) { return v->row < 3 && v->b <= 1 && v->i >= 0 && v->i <= 255; }
static void tv_build(const struct tval *v, TYPE_T *o, struct tv_store *s) {
    memset(o, 0, sizeof(*o));
    o->id = (long)tv_ids[v->row];
    if(v->row == 0) { o->val.present = val_PR_RowB; o->val.choice.RowB = v->b ? 0xff : 0; }
    else if(v->row == 1) { o->val.present = val_PR_RowI; o->val.choice.RowI = (long)v->i; }
    else { o->val.present = val_PR_RowO; s->ob[0] = v->o; s->ob[1] = 0;
           o->val.choice.RowO.buf = s->ob; o->val.choice.RowO.size = 1; }
}
static int tv_match(const struct tval *v, const TYPE_T *o) {
    if(o->id != tv_ids[v->row]) return 0;
    if(v->row == 0) return o->val.present == val_PR_RowB && !o->val.choice.RowB == !v->b;
    if(v->row == 1) return o->val.present == val_PR_RowI && o->val.choice.RowI == v->i;
    return o->val.present == val_PR_RowO && o->val.choice.RowO.size == 1
        && o->val.choice.RowO.buf && o->val.choice.RowO.buf[0] == v->o;
}
/* inner value with its own (universal) tag */
static void tv_inner_der(const struct tval *v, struct rbuf *b) {
    if(v->row == 0) der_bool_tagged(b, CL_UNIV, 1, v->b);
    else if(v->row == 1) der_int_tagged(b, CL_UNIV, 2, v->i);
    else der_octets_tagged(b, CL_UNIV, 4, &v->o, 1);
}
static size_t ref_der(const struct tval *v, uint8_t *out, size_t cap) {
    uint8_t inner[8]; struct rbuf in_ = { inner, 0, sizeof(inner) };
    tv_inner_der(v, &in_);
    uint8_t body[16]; struct rbuf b = { body, 0, sizeof(body) };
    der_int_tagged(&b, CL_CTX, 0, tv_ids[v->row]);
    x_constructed(&b, CL_CTX, 1, inner, in_.n);           /* open type: EXPLICIT [1] around the actual type's TLV */
    struct rbuf o = { out, 0, cap };
    x_constructed(&o, CL_UNIV, 16, body, b.n);
    return o.n;
}
static size_t ref_oer(const struct tval *v, uint8_t *out, size_t cap) {
    struct rbuf o = { out, 0, cap };
    oer_int(&o, tv_ids[v->row], 0, 0, 0, 0, 0);            /* id: unconstrained INTEGER */
    /* open type: length + COER encoding of the actual type (X.696 30) */
    if(v->row == 0) { oer_len(&o, 1); rb_put(&o, v->b ? 0xff : 0); }
    else if(v->row == 1) { oer_len(&o, 1); rb_put(&o, (uint8_t)v->i); }
    else { oer_len(&o, 1); rb_put(&o, v->o); }            /* OCTET STRING (SIZE(1)): fixed size, no inner length */
    return o.n;
}
static size_t ref_uper(const struct tval *v, uint8_t *out, size_t cap) {
    struct bitw w = { out, 0, cap };
    uper_unconstrained(&w, tv_ids[v->row]);
    uper_length(&w, 1);                                    /* open type: one octet of padded encoding in all rows */
    if(v->row == 0) { bw_bit(&w, v->b); bw_bits(&w, 0, 7); }
    else if(v->row == 1) bw_bits(&w, (uint64_t)v->i, 8);
    else bw_bits(&w, v->o, 8);
    return bw_finish(&w);
}
