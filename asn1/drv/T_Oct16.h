/* T-Oct16 ::= OCTET STRING (SIZE(12..16)): DER is 14..18 octets, OER 13..17: crosses the initial capacity (16)
 * of asn_encode_to_new_buffer's growing buffer */
#include <T-Oct16.h>
#define TYPE_T T_Oct16_t
#define TYPE_DEF asn_DEF_T_Oct16
#define TV_MAXENC 20
#define O16 16
struct tval { uint8_t len; uint8_t b[O16]; };
struct tv_store { uint8_t b[O16 + 1]; };
static int tv_valid(const struct tval *t) { return t->len >= 12 && t->len <= 16; }
static int tv_wf(const struct tval *t) { return t->len <= O16; }
#define tv_wellformed tv_wf
static void tv_build(const struct tval *t, TYPE_T *o, struct tv_store *s) {
    memset(o, 0, sizeof(*o));
    for(int i = 0; i < O16; i++) s->b[i] = t->b[i];
    s->b[O16] = 0; o->buf = s->b; o->size = t->len;
}
static int tv_match(const struct tval *t, const TYPE_T *o) {
    if(o->size != t->len) return 0;
    for(int i = 0; i < O16; i++) if(i < t->len && (!o->buf || o->buf[i] != t->b[i])) return 0;
    return 1;
}
static size_t ref_der(const struct tval *t, uint8_t *out, size_t cap) { struct rbuf o = { out, 0, cap }; der_octets_tagged(&o, CL_UNIV, 4, t->b, t->len); return o.n; }
static size_t ref_uper(const struct tval *t, uint8_t *out, size_t cap) {
    struct bitw w = { out, 0, cap };
    uper_constrained(&w, t->len, 12, 16); bw_octets(&w, t->b, t->len);
    return bw_finish(&w);
}
static size_t ref_oer(const struct tval *t, uint8_t *out, size_t cap) { struct rbuf o = { out, 0, cap }; oer_len(&o, t->len); rb_puts(&o, t->b, t->len); return o.n; }
