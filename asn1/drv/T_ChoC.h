/* T-ChoC ::= CHOICE { s SEQUENCE { x INTEGER (0..255) }, b BOOLEAN }  (AUTOMATIC TAGS)
 * with -DINDIRECT_CHOICE the module is compiled with -findirect-choice: `s` is a pointer */
#include <T-ChoC.h>
#define TYPE_T T_ChoC_t
#define TYPE_DEF asn_DEF_T_ChoC
#define TV_MAXENC 10
struct tval { uint8_t alt; int64_t x; uint8_t b; };
#ifdef COMPOUND_NAMES
#define TV_S_STRUCT struct T_ChoC__s
#else
#define TV_S_STRUCT struct s
#endif
struct tv_store { TV_S_STRUCT s; };
static int tv_valid(const struct tval *v) { return v->alt <= 1 && (v->alt == 0 ? (v->x >= 0 && v->x <= 255) : v->b <= 1); }
static void tv_build(const struct tval *v, TYPE_T *o, struct tv_store *st) {
    memset(o, 0, sizeof(*o)); memset(st, 0, sizeof(*st));
    if(v->alt == 0) {
        o->present = T_ChoC_PR_s;
#ifdef INDIRECT_CHOICE
        st->s.x = (long)v->x; o->choice.s = &st->s;
#else
        o->choice.s.x = (long)v->x;
#endif
    } else { o->present = T_ChoC_PR_b; o->choice.b = v->b ? 0xff : 0; }
}
static int tv_match(const struct tval *v, const TYPE_T *o) {
    if(v->alt == 0) {
#ifdef INDIRECT_CHOICE
        return o->present == T_ChoC_PR_s && o->choice.s && o->choice.s->x == v->x;
#else
        return o->present == T_ChoC_PR_s && o->choice.s.x == v->x;
#endif
    }
    return o->present == T_ChoC_PR_b && !o->choice.b == !v->b;
}
static size_t ref_der(const struct tval *v, uint8_t *out, size_t cap) {
    struct rbuf o = { out, 0, cap };
    if(v->alt == 0) {
        uint8_t body[6]; struct rbuf b = { body, 0, sizeof(body) };
        der_int_tagged(&b, CL_CTX, 0, v->x);
        x_constructed(&o, CL_CTX, 0, body, b.n);          /* [0] IMPLICIT SEQUENCE */
    } else der_bool_tagged(&o, CL_CTX, 1, v->b);
    return o.n;
}
static size_t ref_uper(const struct tval *v, uint8_t *out, size_t cap) {
    struct bitw w = { out, 0, cap };
    uper_constrained(&w, v->alt, 0, 1);
    if(v->alt == 0) uper_constrained(&w, v->x, 0, 255); else bw_bit(&w, v->b);
    return bw_finish(&w);
}
static size_t ref_oer(const struct tval *v, uint8_t *out, size_t cap) {
    struct rbuf o = { out, 0, cap };
    oer_tag(&o, CL_CTX, v->alt);
    if(v->alt == 0) oer_int(&o, v->x, 1, 0, 1, 255, 255); else rb_put(&o, v->b ? 0xff : 0);
    return o.n;
}
