/* T-Int16 ::= INTEGER (0..65535) */
#include <T-Int16.h>
#define TYPE_T T_Int16_t
#define TYPE_DEF asn_DEF_T_Int16
#define INT_HAS_LB 1
#define INT_LB 0
#define INT_HAS_UB 1
#define INT_UB 65535
#define INT_EXT 0
#include "drv/int_common.h"
