/* T-IntNeg ::= INTEGER (MIN..5) */
#include <T-IntNeg.h>
#define TYPE_T T_IntNeg_t
#define TYPE_DEF asn_DEF_T_IntNeg
#define INT_HAS_LB 0
#define INT_LB 0
#define INT_HAS_UB 1
#define INT_UB 5
#define INT_EXT 0
#include "drv/int_common.h"
