/* T-OctF ::= OCTET STRING (SIZE(2)) */
#include <T-OctF.h>
#define TYPE_T T_OctF_t
#define TYPE_DEF asn_DEF_T_OctF
#define OCT_MODE 1
#define OCT_LB 2
#define OCT_UB 2
#include "drv/oct_common.h"
