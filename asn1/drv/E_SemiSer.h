/* E-SemiSer ::= INTEGER (0..MAX)(10..20): effective (10..20) */
#include <E-SemiSer.h>
#define TYPE_T E_SemiSer_t
#define TYPE_DEF asn_DEF_E_SemiSer
#define INT_HAS_LB 1
#define INT_LB 10
#define INT_HAS_UB 1
#define INT_UB 20
#define INT_EXT 0
#define INT_EXTRA_VALID(v) (1)
#include "drv/int_common.h"
