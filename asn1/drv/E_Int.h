/* E-Int ::= INTEGER ((1..30) ^ (5..40)): effective (5..30) */
#include <E-Int.h>
#define TYPE_T E_Int_t
#define TYPE_DEF asn_DEF_E_Int
#define INT_HAS_LB 1
#define INT_LB 5
#define INT_HAS_UB 1
#define INT_UB 30
#define INT_EXT 0
#define INT_EXTRA_VALID(v) (1)
#include "drv/int_common.h"
