/* T-SeqX1 ::= SEQUENCE { ..., x BOOLEAN OPTIONAL }  (AUTOMATIC TAGS): one extension addition, empty root */
#include <T-SeqX1.h>
#define TYPE_T T_SeqX1_t
#define TYPE_DEF asn_DEF_T_SeqX1
#define TV_MAXENC 8
struct tval { uint8_t has_x, x; };
struct tv_store { BOOLEAN_t x; };
static int tv_valid(const struct tval *v) { return v->has_x <= 1 && v->x <= 1; }
static void tv_build(const struct tval *v, TYPE_T *o, struct tv_store *s) {
    memset(o, 0, sizeof(*o));
    if(v->has_x) { s->x = v->x ? 0xff : 0; o->x = &s->x; }
}
static int tv_match(const struct tval *v, const TYPE_T *o) {
    if(v->has_x) return o->x && !*o->x == !v->x;
    return !o->x;
}
static size_t ref_der(const struct tval *v, uint8_t *out, size_t cap) {
    uint8_t body[8]; struct rbuf b = { body, 0, sizeof(body) };
    if(v->has_x) der_bool_tagged(&b, CL_CTX, 0, v->x);
    struct rbuf o = { out, 0, cap };
    x_constructed(&o, CL_UNIV, 16, body, b.n);
    return o.n;
}
static size_t ref_uper(const struct tval *v, uint8_t *out, size_t cap) {
    struct bitw w = { out, 0, cap };
    bw_bit(&w, v->has_x);
    if(v->has_x) { uper_nsnnwn(&w, 1 - 1); bw_bit(&w, 1); uper_length(&w, 1); bw_bit(&w, v->x); bw_bits(&w, 0, 7); }
    return bw_finish(&w);
}
static size_t ref_oer(const struct tval *v, uint8_t *out, size_t cap) {
    struct rbuf o = { out, 0, cap };
    rb_put(&o, v->has_x ? 0x80 : 0x00);
    if(v->has_x) { oer_len(&o, 2); rb_put(&o, 7); rb_put(&o, 0x80); oer_len(&o, 1); rb_put(&o, v->x ? 0xff : 0); }
    return o.n;
}
