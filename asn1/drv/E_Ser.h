/* E-Ser ::= INTEGER (1..30)(5..20): effective (5..20) */
#include <E-Ser.h>
#define TYPE_T E_Ser_t
#define TYPE_DEF asn_DEF_E_Ser
#define INT_HAS_LB 1
#define INT_LB 5
#define INT_HAS_UB 1
#define INT_UB 20
#define INT_EXT 0
#define INT_EXTRA_VALID(v) (1)
#include "drv/int_common.h"
