/* E-Vals ::= INTEGER (1 | 3 | 5): effective (1..5) */
#include <E-Vals.h>
#define TYPE_T E_Vals_t
#define TYPE_DEF asn_DEF_E_Vals
#define INT_HAS_LB 1
#define INT_LB 1
#define INT_HAS_UB 1
#define INT_UB 5
#define INT_EXT 0
#define INT_EXTRA_VALID(v) ((v) == 1 || (v) == 3 || (v) == 5)
#include "drv/int_common.h"
