/* E-Gap ::= INTEGER (0..255 | 300..65535): effective (0..65535) */
#include <E-Gap.h>
#define TYPE_T E_Gap_t
#define TYPE_DEF asn_DEF_E_Gap
#define INT_HAS_LB 1
#define INT_LB 0
#define INT_HAS_UB 1
#define INT_UB 65535
#define INT_EXT 0
#define INT_EXTRA_VALID(v) ((v) <= 255 || (v) >= 300)
#include "drv/int_common.h"
