/* T-Int ::= INTEGER */
#include <T-Int.h>
#define TYPE_T T_Int_t
#define TYPE_DEF asn_DEF_T_Int
#define INT_HAS_LB 0
#define INT_LB 0
#define INT_HAS_UB 0
#define INT_UB 0
#define INT_EXT 0
#include "drv/int_common.h"
