/* T-IntSemi ::= INTEGER (0..MAX) */
#include <T-IntSemi.h>
#define TYPE_T T_IntSemi_t
#define TYPE_DEF asn_DEF_T_IntSemi
#define INT_HAS_LB 1
#define INT_LB 0
#define INT_HAS_UB 0
#define INT_UB 0
#define INT_EXT 0
#define INT_UNSIGNED_REPR 1
#include "drv/int_common.h"
