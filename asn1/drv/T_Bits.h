/* T-Bits ::= BIT STRING (SIZE(0..9)) */
#include <T-Bits.h>
#define TYPE_T T_Bits_t
#define TYPE_DEF asn_DEF_T_Bits
#define TV_MAXENC 8
struct tval { uint8_t nbits; uint8_t b[2]; };      /* bits MSB first; bits beyond nbits are zero in the abstract value */
struct tv_store { uint8_t b[3]; };
static int tv_valid(const struct tval *t) {
    if(t->nbits > 9) return 0;
    /* canonical abstract value: unused bits zero */
    uint16_t all = (uint16_t)((t->b[0] << 8) | t->b[1]);
    uint16_t mask = (uint16_t)(t->nbits == 0 ? 0 : (0xffff << (16 - t->nbits)));
    return (all & ~mask) == 0;
}
static void tv_build(const struct tval *t, TYPE_T *o, struct tv_store *s) {
    memset(o, 0, sizeof(*o));
    s->b[0] = t->b[0]; s->b[1] = t->b[1]; s->b[2] = 0;
    o->buf = s->b; o->size = (t->nbits + 7) / 8; o->bits_unused = (int)(o->size * 8 - t->nbits);
}
static int tv_match(const struct tval *t, const TYPE_T *o) {
    size_t nb = (t->nbits + 7) / 8;
    if(o->size != nb || (nb && o->bits_unused != (int)(nb * 8 - t->nbits))) return 0;
    for(size_t i = 0; i < 2; i++) if(i < nb) {
        uint8_t m = (i == nb - 1 && o->bits_unused) ? (uint8_t)(0xff << o->bits_unused) : 0xff;
        if(!o->buf || (o->buf[i] & m) != t->b[i]) return 0;
    }
    return 1;
}
static size_t ref_der(const struct tval *t, uint8_t *out, size_t cap) { struct rbuf o = { out, 0, cap }; der_bits_tagged(&o, CL_UNIV, 3, t->b, t->nbits); return o.n; }
static size_t ref_uper(const struct tval *t, uint8_t *out, size_t cap) {
    struct bitw w = { out, 0, cap };
    uper_constrained(&w, t->nbits, 0, 9);
    for(int i = 0; i < 9; i++) if(i < t->nbits) bw_bit(&w, (t->b[i / 8] >> (7 - i % 8)) & 1);
    return bw_finish(&w);
}
static size_t ref_oer(const struct tval *t, uint8_t *out, size_t cap) {
    struct rbuf o = { out, 0, cap };
    size_t nb = (t->nbits + 7) / 8;
    oer_len(&o, nb + 1); rb_put(&o, (uint8_t)(nb * 8 - t->nbits)); rb_puts(&o, t->b, nb);   /* X.696 13.3 */
    return o.n;
}

/* ---- C06: garbage in the unused bits of the last octet ---- */
#define TV_HAS_ALT 1
struct talt { uint8_t noise; };
static int talt_valid(const struct talt *a) { (void)a; return 1; }
static void tv_build_alt(const struct tval *v, const struct talt *a, TYPE_T *o, struct tv_store *s) {
    tv_build(v, o, s);
    if(o->size && o->bits_unused) s->b[o->size - 1] |= (uint8_t)(a->noise & ((1u << o->bits_unused) - 1));
}
