/* E-MaxU ::= INTEGER (0..10 | 5..MAX): effective (0..MAX) - semi-constrained (mirror image of E-MinU) */
#include <E-MaxU.h>
#define TYPE_T E_MaxU_t
#define TYPE_DEF asn_DEF_E_MaxU
#define INT_HAS_LB 1
#define INT_LB 0
#define INT_HAS_UB 0
#define INT_UB 0
#define INT_EXT 0
#define INT_EXTRA_VALID(v) (1)
#include "drv/int_common.h"
