/* T-Int17 ::= INTEGER (0..65536) */
#include <T-Int17.h>
#define TYPE_T T_Int17_t
#define TYPE_DEF asn_DEF_T_Int17
#define INT_HAS_LB 1
#define INT_LB 0
#define INT_HAS_UB 1
#define INT_UB 65536
#define INT_EXT 0
#include "drv/int_common.h"
