/* E-Base ::= INTEGER (0..1000); E-Ref ::= E-Base (0..100): effective (0..100) */
#include <E-Ref.h>
#define TYPE_T E_Ref_t
#define TYPE_DEF asn_DEF_E_Ref
#define INT_HAS_LB 1
#define INT_LB 0
#define INT_HAS_UB 1
#define INT_UB 100
#define INT_EXT 0
#define INT_EXTRA_VALID(v) (1)
#include "drv/int_common.h"
