/* E-P257 ::= INTEGER (0..256 | 1..3): effective (0..256): 257 values -> 9 bits */
#include <E-P257.h>
#define TYPE_T E_P257_t
#define TYPE_DEF asn_DEF_E_P257
#define INT_HAS_LB 1
#define INT_LB 0
#define INT_HAS_UB 1
#define INT_UB 256
#define INT_EXT 0
#define INT_EXTRA_VALID(v) (1)
#include "drv/int_common.h"
