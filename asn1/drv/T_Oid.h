/* T-Oid ::= OBJECT IDENTIFIER: abstract value = arc vector of 2..3 arcs (harness bound), 32-bit arcs */
#include <T-Oid.h>
#define TYPE_T T_Oid_t
#define TYPE_DEF asn_DEF_T_Oid
#define TV_MAXENC 20
struct tval { uint8_t n; uint32_t arcs[3]; };
struct tv_store { uint8_t b[16]; };
static int ref_subid_o(uint64_t v, uint8_t *out) {
    int n = 1;
    for(uint64_t t = v >> 7; t; t >>= 7) n++;
    for(int i = 0; i < n; i++) out[i] = (uint8_t)(((v >> (7 * (n - 1 - i))) & 0x7f) | (i < n - 1 ? 0x80 : 0));
    return n;
}
static int tv_valid(const struct tval *v) {
    if(v->n < 2 || v->n > 3) return 0;
    return (v->arcs[0] <= 1 && v->arcs[1] < 40) || (v->arcs[0] == 2 && v->arcs[1] <= 0xffffffffu - 80);
}
static size_t tv_contents(const struct tval *v, uint8_t *out) {       /* X.690 8.19 */
    size_t n = (size_t)ref_subid_o((uint64_t)v->arcs[0] * 40 + v->arcs[1], out);
    if(v->n == 3) n += (size_t)ref_subid_o(v->arcs[2], out + n);
    return n;
}
static void tv_build(const struct tval *v, TYPE_T *o, struct tv_store *s) {
    memset(o, 0, sizeof(*o));
    size_t n = tv_contents(v, s->b);
    s->b[n] = 0; o->buf = s->b; o->size = n;
}
static int tv_match(const struct tval *v, const TYPE_T *o) {
    uint8_t c[16]; size_t n = tv_contents(v, c);
    if(o->size != n || !o->buf) return 0;
    for(size_t i = 0; i < 16; i++) if(i < n && o->buf[i] != c[i]) return 0;
    return 1;
}
static size_t ref_der(const struct tval *v, uint8_t *out, size_t cap) {
    uint8_t c[16]; size_t n = tv_contents(v, c);
    struct rbuf o = { out, 0, cap }; der_octets_tagged(&o, CL_UNIV, 6, c, n); return o.n;
}
static size_t ref_uper(const struct tval *v, uint8_t *out, size_t cap) {   /* X.691 24: length + contents octets */
    uint8_t c[16]; size_t n = tv_contents(v, c);
    struct bitw w = { out, 0, cap }; uper_length(&w, n); bw_octets(&w, c, n); return bw_finish(&w);
}
static size_t ref_oer(const struct tval *v, uint8_t *out, size_t cap) {    /* X.696 23: length + contents octets */
    uint8_t c[16]; size_t n = tv_contents(v, c);
    struct rbuf o = { out, 0, cap }; oer_len(&o, n); rb_puts(&o, c, n); return o.n;
}
