/* T-SetOf ::= SET (SIZE(0..2)) OF INTEGER (0..65535): the abstract value is a multiset */
#include <T-SetOf.h>
#define TYPE_T T_SetOf_t
#define TYPE_DEF asn_DEF_T_SetOf
#define TV_MAXENC 16
struct tval { uint8_t n; int64_t e[2]; };
struct tv_store { long e[2]; long *p[2]; };
static int tv_valid(const struct tval *v) {
    if(v->n > 2) return 0;
    for(int i = 0; i < 2; i++) if(i < v->n && (v->e[i] < 0 || v->e[i] > 65535)) return 0;
#ifdef SETOF_N_MAX      /* harness bound (stated in the evidence) on the element count */
    if(v->n > (SETOF_N_MAX)) return 0;
#endif
#ifdef SETOF_ELEM_MAX   /* harness bound (stated in the evidence): keeps every element encoding at one content octet */
    for(int i = 0; i < 2; i++) if(i < v->n && v->e[i] > (SETOF_ELEM_MAX)) return 0;
#endif
    return 1;
}
#ifdef SETOF_FIXED   /* harness bound: a concrete value (1: {65535}, 2: {65535, 3} - emitted in the other order by DER) */
#define TV_HAS_FIX 1
static void tv_fix(struct tval *v) { v->n = (SETOF_FIXED); v->e[0] = 65535; v->e[1] = 3; }
#endif
static void tv_build(const struct tval *v, TYPE_T *o, struct tv_store *s) {
    memset(o, 0, sizeof(*o));
    for(int i = 0; i < 2; i++) { s->e[i] = (long)v->e[i]; s->p[i] = &s->e[i]; }
    o->list.array = s->p; o->list.count = v->n; o->list.size = 2;
}
static int tv_match(const struct tval *v, const TYPE_T *o) {
    if(o->list.count != v->n) return 0;
    if(v->n == 0) return 1;
    if(!o->list.array || !o->list.array[0]) return 0;
    if(v->n == 1) return *o->list.array[0] == v->e[0];
    if(!o->list.array[1]) return 0;
    long x = *o->list.array[0], y = *o->list.array[1];
    return (x == v->e[0] && y == v->e[1]) || (x == v->e[1] && y == v->e[0]);
}
/* DER X.690 11.6: element encodings in ascending order (compared as octet strings, shorter padded with 0) */
static int tv_der_less(int64_t a, int64_t b) {
    uint8_t ea[6], eb[6]; struct rbuf ra = { ea, 0, 6 }, rb_ = { eb, 0, 6 };
    der_int_tagged(&ra, CL_UNIV, 2, a); der_int_tagged(&rb_, CL_UNIV, 2, b);
    for(size_t i = 0; i < 6; i++) {
        uint8_t x = i < ra.n ? ea[i] : 0, y = i < rb_.n ? eb[i] : 0;
        if(x != y) return x < y;
    }
    return 0;
}
static size_t ref_der(const struct tval *v, uint8_t *out, size_t cap) {
    uint8_t body[12]; struct rbuf b = { body, 0, sizeof(body) };
    int64_t e0 = v->e[0], e1 = v->e[1];
    if(v->n == 2 && tv_der_less(e1, e0)) { int64_t t = e0; e0 = e1; e1 = t; }
    if(v->n >= 1) der_int_tagged(&b, CL_UNIV, 2, e0);
    if(v->n >= 2) der_int_tagged(&b, CL_UNIV, 2, e1);
    struct rbuf o = { out, 0, cap };
    x_constructed(&o, CL_UNIV, 17, body, b.n);
    return o.n;
}
/* canonical PER: X.691 22 refers to ordering of set-of element encodings (ascending, as bit strings padded with 0) */
static size_t ref_uper(const struct tval *v, uint8_t *out, size_t cap) {
    struct bitw w = { out, 0, cap };
    int64_t e0 = v->e[0], e1 = v->e[1];
    if(v->n == 2 && e1 < e0) { int64_t t = e0; e0 = e1; e1 = t; }
    uper_constrained(&w, v->n, 0, 2);
    if(v->n >= 1) uper_constrained(&w, e0, 0, 65535);
    if(v->n >= 2) uper_constrained(&w, e1, 0, 65535);
    return bw_finish(&w);
}
static size_t ref_oer(const struct tval *v, uint8_t *out, size_t cap) {
    struct rbuf o = { out, 0, cap };
    int64_t e0 = v->e[0], e1 = v->e[1];
    if(v->n == 2 && e1 < e0) { int64_t t = e0; e0 = e1; e1 = t; }   /* X.696 COER: set-of in canonical order */
    oer_quantity(&o, v->n);
    if(v->n >= 1) put_uint_octets(&o, (uint64_t)e0, 2);
    if(v->n >= 2) put_uint_octets(&o, (uint64_t)e1, 2);
    return o.n;
}
static int tv_wf(const struct tval *v) { return v->n <= 2; }
#define tv_wellformed tv_wf

/* ---- C06: SET OF elements stored in a different order ---- */
#define TV_HAS_ALT 1
struct talt { uint8_t swap; };
static int talt_valid(const struct talt *a) { return a->swap <= 1; }
static void tv_build_alt(const struct tval *v, const struct talt *a, TYPE_T *o, struct tv_store *s) {
    tv_build(v, o, s);
    if(a->swap && v->n == 2) { long *t = s->p[0]; s->p[0] = s->p[1]; s->p[1] = t; }
}
