#!/usr/bin/env python3
"""Bounded symbolic checking engine for vlm/asn1c (see DESIGN.md section 2).

stage /repo's working tree -> (build asn1c, compile corpus) -> goto-cc ->
typed function-pointer restriction -> unwinding by iterative deepening ->
deciding CBMC run (unwinding assertions on, witness in the same run) ->
native replay of counterexamples -> evidence.
"""
import concurrent.futures as cf
import hashlib
import json
import os
import re
import resource
import shutil
import signal
import subprocess
import sys
import threading
import time

VERIF = os.path.dirname(os.path.dirname(os.path.abspath(__file__)))
REPO = os.environ.get('VERIF_REPO', '/repo')
COMMON = os.path.join(VERIF, 'harness', 'common')
GUARD = 'VLM_ASN1C_VERIF'
SCRATCH_ROOT = os.environ.get('VERIF_SCRATCH', '/var/tmp')
NCPU = int(os.environ.get('VERIF_JOBS', str(os.cpu_count() or 4)))
MEM_LIMIT_GB = int(os.environ.get('VERIF_MEM_GB', '10'))

GOTOCC_BASE = ['-D' + GUARD, '-DHAVE_CONFIG_H', "-D__builtin_nanf(x)=(0.0f/0.0f)"]

# model files: (file, used in native replay too?)
MODELS = {
    'printf': ('printf_model.c', False),
    'printf_nondet': ('printf_nondet_model.c', True),
    'libm': ('libm_model.c', False),
    'sort': ('sort_model.c', False),
    'alloc': ('alloc_wrap.c', True),
    'time': ('time_model.c', True),
    'stdio': ('stdio_model.c', False),
    'quiet': ('quiet_model.c', False),
    'realloc': ('realloc_model.c', False),
    'memcpy': ('memcpy_model.c', False),
}

ALLOC_DEFS = ['-Dmalloc=verif_malloc', '-Dcalloc=verif_calloc', '-Drealloc=verif_realloc', '-Dfree=verif_free']

_print_lock = threading.Lock()


def log(*a):
    with _print_lock:
        print(*a, file=sys.stderr, flush=True)


def out(*a):
    with _print_lock:
        print(*a, flush=True)


def _limits():
    os.setsid()
    lim = MEM_LIMIT_GB << 30
    try:
        resource.setrlimit(resource.RLIMIT_AS, (lim, lim))
    except Exception:
        pass


def run(cmd, timeout=None, cwd=None, env=None, limit=True):
    """Run a command; returns (rc, stdout, stderr, seconds, maxrss_kb). rc None on timeout."""
    t0 = time.time()
    p = subprocess.Popen(cmd, stdout=subprocess.PIPE, stderr=subprocess.PIPE, cwd=cwd, env=env,
                         preexec_fn=_limits if limit else os.setsid)
    try:
        so, se = p.communicate(timeout=timeout)
        rc = p.returncode
    except subprocess.TimeoutExpired:
        try:
            os.killpg(p.pid, signal.SIGKILL)
        except Exception:
            pass
        so, se = p.communicate()
        rc = None
    return rc, so.decode('utf-8', 'replace'), se.decode('utf-8', 'replace'), time.time() - t0


class EngineError(Exception):
    pass


# ---------------------------------------------------------------------------
# harness specification
# ---------------------------------------------------------------------------
class H:
    """One harness (one or more solver queries)."""

    def __init__(self, name, src, sources=(), gen=None, defines=(), tiers=('quick', 'thorough'),
                 cbmc=(), fp=None, caps=None, objbits=12, leak=False, alloc=False, models=(),
                 timeout=None, note='', inputs='', bounds='', incdirs=(), src_defines=(),
                 unconfirmed_ok=(), functions=(), maxdeepen=None, extra_srcs=(), unwind_default=1,
                 solver=None, nowitness=False, exclude=None, roots=None, partial_deepen=False, snapshot=False, model_defines=(), native_extra=(), native_ldflags=()):
        self.name = name
        self.src = src                      # path relative to /verif/harness
        self.sources = list(sources)        # repo-relative C files
        self.gen = gen                      # dict(modules=[..], opts=[..]) or list of those
        self.defines = list(defines)        # -D for the harness file
        self.tiers = tiers
        self.cbmc = list(cbmc)
        self.fp = fp or {}                  # call-site regex -> comma list of targets
        self.caps = caps or {}
        self.objbits = objbits
        self.leak = leak
        self.alloc = alloc                  # compile repo sources with allocation wrappers
        self.models = list(models)
        self.timeout = timeout
        self.note = note
        self.inputs = inputs                # human description of symbolic inputs
        self.bounds = bounds
        self.incdirs = list(incdirs)        # repo-relative include dirs
        self.src_defines = list(src_defines)
        self.unconfirmed_ok = list(unconfirmed_ok)
        self.functions = list(functions)    # functions under test (for evidence)
        self.maxdeepen = maxdeepen
        self.extra_srcs = list(extra_srcs)  # extra harness-side C files (relative to /verif/harness)
        self.unwind_default = unwind_default
        self.solver = solver
        self.nowitness = nowitness
        self.partial_deepen = partial_deepen
        self.snapshot = snapshot
        self.model_defines = list(model_defines)
        self.native_extra = list(native_extra)   # repo-relative sources linked only into the native replay
        self.native_ldflags = list(native_ldflags)
        self.roots = roots                  # root descriptor objects for table reachability
        self.exclude = exclude              # regex: functions never offered as function-pointer targets


# ---------------------------------------------------------------------------
# staging
# ---------------------------------------------------------------------------
class Stage:
    def __init__(self, keep=False):
        self.dir = os.path.join(SCRATCH_ROOT, 'verif.%d.%d' % (os.getpid(), int(time.time())))
        os.makedirs(self.dir)
        self.src = os.path.join(self.dir, 'src')
        self.keep = keep
        self.compiler_built = False
        self._obj_lock = threading.Lock()
        self._objs = {}
        self._gen_lock = threading.Lock()
        self._gens = {}
        self.build_log = []

    def cleanup(self):
        if not self.keep:
            shutil.rmtree(self.dir, ignore_errors=True)

    def sync(self):
        t0 = time.time()
        rc, so, se, _ = run(['rsync', '-a', '--exclude', '.git', '--exclude', '/tests', '--exclude', '/doc',
                             '--exclude', '/examples', '--exclude', '*.log', '--exclude', '*.trs',
                             REPO + '/', self.src + '/'], limit=False)
        if rc != 0:
            raise EngineError('rsync failed: ' + se[-500:])
        self.build_log.append('staged %s working tree in %.1fs' % (REPO, time.time() - t0))

    def build_compiler(self):
        if self.compiler_built:
            return
        t0 = time.time()
        for d in ['libasn1common', 'libasn1parser', 'libasn1print', 'libasn1fix', 'libasn1compiler', 'asn1c']:
            rc, so, se, _ = run(['make', '-j%d' % NCPU, '-C', os.path.join(self.src, d)], limit=False, timeout=900)
            if rc != 0:
                raise EngineError('building asn1c (%s) from the staged tree failed:\n%s' % (d, (so + se)[-3000:]))
        self.asn1c = os.path.join(self.src, 'asn1c', 'asn1c')
        if not os.path.exists(self.asn1c):
            raise EngineError('no asn1c binary after build')
        self.compiler_built = True
        self.build_log.append('built asn1c from staged tree in %.1fs' % (time.time() - t0))

    def gen(self, spec):
        """Compile corpus module(s) with the staged asn1c; returns output dir."""
        key = json.dumps(spec, sort_keys=True)
        with self._gen_lock:
            if key in self._gens:
                r = self._gens[key]
                if isinstance(r, Exception):
                    raise r
                return r
            self.build_compiler()
            d = os.path.join(self.dir, 'gen.' + hashlib.sha1(key.encode()).hexdigest()[:10])
            os.makedirs(d)
            mods = [os.path.join(VERIF, 'asn1', m) for m in spec['modules']]
            cmd = [self.asn1c, '-S', os.path.join(self.src, 'skeletons'), '-D', d] + list(spec.get('opts', [])) + mods
            rc, so, se, _ = run(cmd, limit=False, timeout=300)
            if rc != 0:
                e = EngineError('asn1c failed on corpus %s %s:\n%s' % (spec['modules'], spec.get('opts'), (so + se)[-3000:]))
                self._gens[key] = e
                raise e
            self._gens[key] = d
            return d

    def obj(self, path, flags, native=False):
        """Compile one C file to an object (cached per stage)."""
        key = (path, tuple(flags), native)
        with self._obj_lock:
            ev = self._objs.get(key)
            if ev is None:
                ev = self._objs[key] = {'lock': threading.Lock(), 'out': None, 'err': None}
        with ev['lock']:
            if ev['out'] or ev['err']:
                if ev['err']:
                    raise EngineError(ev['err'])
                return ev['out']
            h = hashlib.sha1(repr(key).encode()).hexdigest()[:16]
            odir = os.path.join(self.dir, 'obj')
            os.makedirs(odir, exist_ok=True)
            o = os.path.join(odir, os.path.basename(path) + '.' + h + ('.n.o' if native else '.o'))
            cc = ['gcc'] if native else ['goto-cc']
            rc, so, se, _ = run(cc + list(flags) + ['-c', path, '-o', o], limit=False, timeout=600)
            if rc != 0:
                ev['err'] = 'compile failed: %s\n%s' % (path, (so + se)[-3000:])
                raise EngineError(ev['err'])
            ev['out'] = o
            return o


# ---------------------------------------------------------------------------
# typed function pointer restriction
# ---------------------------------------------------------------------------
def _canon(t):
    i = t.get('id', '')
    ns = t.get('namedSub', {})
    if i == 'pointer':
        return 'p(' + _canon(t['sub'][0]) + ')'
    if i in ('struct_tag', 'union_tag', 'c_enum_tag'):
        return i + ':' + ns['identifier']['id']
    if i in ('signedbv', 'unsignedbv', 'floatbv', 'c_bool', 'bool'):
        return i + ns.get('width', {}).get('id', '')
    if i == 'code':
        ps = [_canon(q['namedSub']['type']) for q in ns['parameters'].get('sub', [])]
        ell = 'ellipsis' in ns['parameters'].get('namedSub', {})
        return 'fn(' + ','.join(ps) + (',...' if ell else '') + ')->' + _canon(ns['return_type'])
    if i == 'empty':
        return 'void'
    if i == 'array':
        return 'arr(' + _canon(t['sub'][0]) + ')'
    return i


def _norm(s):
    t = s['type']
    if t.get('id') == 'pointer':
        t = t['sub'][0]
    return _canon(t)


def _syms_in(v, acc):
    if isinstance(v, dict):
        if v.get('id') == 'symbol':
            n = v.get('namedSub', {}).get('identifier', {}).get('id')
            if n:
                acc.add(n)
        for x in v.values():
            _syms_in(x, acc)
    elif isinstance(v, list):
        for x in v:
            _syms_in(x, acc)


def table_reachability(st, roots):
    """functions stored in static tables: (all of them, those reachable from the root objects)"""
    refs = {}
    for n, s in st.items():
        if s.get('isStaticLifetime') and s['type'].get('id') != 'code' and not s.get('isType') and 'value' in s:
            acc = set()
            _syms_in(s['value'], acc)
            refs[n] = acc
    isfunc = lambda n: n in st and st[n]['type'].get('id') == 'code'
    tabled = set(f for acc in refs.values() for f in acc if isfunc(f))
    seen, todo, reach = set(), [r for r in roots if r in refs], set()
    while todo:
        n = todo.pop()
        if n in seen:
            continue
        seen.add(n)
        for m in refs.get(n, ()):
            if isfunc(m):
                reach.add(m)
            elif m in refs and m not in seen:
                todo.append(m)
    return tabled, reach


def fprestrict(inp, outp, overrides, workdir, exclude=None, roots=None):
    e = os.path.join(workdir, 'fp_empty.json')
    open(e, 'w').write('{}')
    lab = os.path.join(workdir, 'fp_lab.gb')
    rc, so, se, _ = run(['goto-instrument', '--function-pointer-restrictions-file', e, inp, lab], limit=False)
    if rc != 0:
        raise EngineError('goto-instrument labelling failed: ' + (so + se)[-2000:])
    rc, so, se, _ = run(['goto-instrument', '--show-symbol-table', '--json-ui', lab], limit=False)
    st = None
    for x in json.loads(so):
        if 'symbolTable' in x:
            st = x['symbolTable']
    funcs = {}
    for n, s in st.items():
        if (s['type'].get('id') == 'code' and not s.get('isType') and '$object' not in n
                and 'function_pointer_call' not in n and not n.startswith('__CPROVER')):
            funcs.setdefault(_norm(s), []).append(n)
    res = {}
    if roots:
        # static objects referenced from function bodies are roots too (e.g. asn_DEF_INTEGER in NativeInteger.c)
        rc, gso, gse, _ = run(['goto-instrument', '--show-goto-functions', inp], limit=False)
        cur, code_refs = None, set()
        statics = set(n for n, s0 in st.items() if s0.get('isStaticLifetime') and s0['type'].get('id') != 'code')
        for line in gso.splitlines():
            m = re.match(r'^(\S+) /\* (\S+) \*/$', line)
            if m:
                cur = m.group(2)
                continue
            if cur in ('__CPROVER_initialize', '__CPROVER__start') or cur is None:
                continue
            if 'asn_' in line or 'DEF' in line:
                for tok in re.findall(r'[A-Za-z_][A-Za-z0-9_$]*', line):
                    if tok in statics:
                        code_refs.add(tok)
        roots = list(roots) + sorted(code_refs)
    tabled, reach = table_reachability(st, roots) if roots else (set(), set())
    for n, s in st.items():
        if '.function_pointer_call.' in n and not n.endswith('$object'):
            c = funcs.get(_norm(s), [])
            if roots:
                # a function that lives only in descriptor tables not reachable from the harness's
                # root descriptors can never be the callee (asserted by goto-instrument, not assumed)
                c = [f for f in c if f not in tabled or f in reach]
            if exclude:
                c = [f for f in c if not re.search(exclude, f)]
            for pat, fl in overrides.items():
                if re.fullmatch(pat, n):
                    c = [f for f in fl.split(',') if f in st]
            res[n] = sorted(c)
    rj = os.path.join(workdir, 'fp_restrict.json')
    json.dump(res, open(rj, 'w'), indent=1)
    rc, so, se, _ = run(['goto-instrument', '--function-pointer-restrictions-file', rj, inp, outp], limit=False)
    if rc != 0:
        raise EngineError('goto-instrument restriction failed: ' + (so + se)[-2000:])
    try:
        os.unlink(lab)
    except OSError:
        pass
    return res


# ---------------------------------------------------------------------------
# CBMC runs
# ---------------------------------------------------------------------------
def _us(bounds):
    return ','.join('%s:%d' % (k, v) for k, v in sorted(bounds.items()))


def parse_cbmc_json(so):
    try:
        o = json.loads(so)
    except Exception:
        return None, 'unparsable CBMC output: ' + so[-1500:]
    res = [x for x in o if isinstance(x, dict) and 'result' in x]
    if not res:
        errs = [x.get('messageText', '') for x in o if isinstance(x, dict) and x.get('messageType') == 'ERROR']
        return None, 'no result from CBMC: ' + ' | '.join(errs)[:1500]
    info = {}
    for x in o:
        if isinstance(x, dict) and x.get('messageType') == 'STATUS-MESSAGE':
            m = x.get('messageText', '')
            mm = re.search(r'Generated (\d+) VCC\(s\), (\d+) remaining', m)
            if mm:
                info['vccs'] = int(mm.group(1))
                info['vccs_remaining'] = int(mm.group(2))
            mm = re.search(r'Runtime Symex: ([\d.e+-]+)s', m)
            if mm:
                info['symex_s'] = float(mm.group(1))
            mm = re.search(r'Runtime Solver: ([\d.e+-]+)s', m)
            if mm:
                info['solver_s'] = info.get('solver_s', 0.0) + float(mm.group(1))
            mm = re.search(r'size of program expression: (\d+) steps', m)
            if mm:
                info['ssa_steps'] = int(mm.group(1))
            mm = re.search(r'(\d+) variables, (\d+) clauses', m)
            if mm:
                info['sat_vars'] = int(mm.group(1))
                info['sat_clauses'] = int(mm.group(2))
    return res[0]['result'], info


def unwind_key(prop):
    m = re.match(r'(.*)\.unwind\.(\d+)$', prop)
    if m:
        return '%s.%s' % (m.group(1), m.group(2))
    m = re.match(r'(.*)\.recursion$', prop)
    if m:
        return m.group(1)
    return None


def cap_for(h, key):
    best = None
    for pat, v in h.caps.items():
        if re.fullmatch(pat, key):
            best = v if best is None else min(best, v)
    return best if best is not None else 64


def deepen(h, gb, bounds, deadline, objbits, logf):
    """Iterative deepening of unwind bounds using only unwinding assertions."""
    iters = 0
    while True:
        if time.time() > deadline:
            return False, 'deepening ran out of time after %d iterations' % iters
        # --partial-loops lets paths continue past an insufficient bound, so ONE iteration reports every
        # loop on the path that needs more unwinding (instead of one loop per iteration). Only used to find
        # bounds; the deciding run has the standard (blocking) unwinding assertions.
        cmd = ['cbmc', gb, '--function', 'harness', '--unwind', str(h.unwind_default), '--unwinding-assertions',
               '--no-standard-checks', '--no-assertions', '--no-malloc-may-fail',
               '--drop-unused-functions', '--object-bits', str(objbits), '--json-ui']
        if h.partial_deepen:
            cmd.append('--partial-loops')
        if bounds:
            cmd += ['--unwindset', _us(bounds)]
        rc, so, se, dt = run(cmd, timeout=max(5, deadline - time.time()))
        if rc is None:
            return False, 'deepening iteration timed out'
        props, info = parse_cbmc_json(so)
        if props is None:
            return False, info
        failed = [p for p in props if p['status'] == 'FAILURE' and unwind_key(p['property'])]
        iters += 1
        logf.write('deepen iter %d: %d failing unwinding assertions, %.1fs\n' % (iters, len(failed), dt))
        if not failed:
            return True, iters
        for p in failed:
            k = unwind_key(p['property'])
            if k is None:
                return False, 'unexpected failing property during deepening: %s (%s) with unwindset %s' % (p['property'], p.get('description'), _us(bounds))
            cur = bounds.get(k, h.unwind_default)
            new = cur * 2 if cur < 8 else cur + max(2, cur // 2)
            cap = cap_for(h, k)
            if cur >= cap:
                return False, 'unwinding cap %d reached for %s (loop may not terminate within the input bound)' % (cap, k)
            bounds[k] = min(new, cap)


UNCONFIRMABLE = re.compile(r'same object violation|pointer outside object bounds|pointer relation|'
                           r'pointer arithmetic|dead object|pointer invalid|deallocated dynamic object|'
                           r'pointer outside dynamic object')


SOLVERS = {
    'minisat': [],
    'cadical': ['--sat-solver', 'cadical'],
    'kissat': ['--external-sat-solver', 'kissat'],
}
DEFAULT_SOLVER = os.environ.get('VERIF_SOLVER', 'race2')


def run_race(cmds, timeout):
    """Run several commands concurrently; first one to exit (not by timeout) wins. -> (idx, rc, so, se, dt)"""
    t0 = time.time()
    procs = []
    for c in cmds:
        procs.append(subprocess.Popen(c, stdout=subprocess.PIPE, stderr=subprocess.PIPE, preexec_fn=_limits))
    outs = [None] * len(procs)

    def reader(i):
        so, se = procs[i].communicate()
        outs[i] = (so, se)
    ths = [threading.Thread(target=reader, args=(i,), daemon=True) for i in range(len(procs))]
    for t in ths:
        t.start()
    win = None
    bad = set()
    while time.time() - t0 < timeout:
        for i, p in enumerate(procs):
            if i in bad:
                continue
            if p.poll() is not None:
                ths[i].join(10)
                so_i = (outs[i] or (b'', b''))[0]
                # a finisher only wins with a usable verdict (an external solver that died yields ERROR statuses)
                if p.returncode in (0, 10) and b'"status": "ERROR"' not in so_i and b'"result"' in so_i:
                    win = i
                    break
                bad.add(i)
        if win is not None or len(bad) == len(procs):
            break
        time.sleep(0.2)
    if win is None and bad:
        win = sorted(bad)[0]
    for i, p in enumerate(procs):
        if p.poll() is None:
            try:
                os.killpg(p.pid, signal.SIGKILL)
            except Exception:
                pass
    for t in ths:
        t.join(10)
    if win is None:
        return None, None, '', '', time.time() - t0
    so, se = outs[win] or (b'', b'')
    return win, procs[win].returncode, so.decode('utf-8', 'replace'), se.decode('utf-8', 'replace'), time.time() - t0


def decide(h, gb, bounds, timeout, objbits, extra=()):
    cmd = ['cbmc', gb, '--function', 'harness', '--unwind', str(h.unwind_default), '--unwinding-assertions',
           '--no-malloc-may-fail', '--drop-unused-functions', '--object-bits', str(objbits), '--json-ui', '--trace', '--verbosity', '8']
    if bounds:
        cmd += ['--unwindset', _us(bounds)]
    if h.leak:
        cmd += ['--memory-leak-check']
    cmd += h.cbmc + list(extra)
    solver = h.solver or DEFAULT_SOLVER
    names = ['minisat', 'cadical', 'kissat'] if solver == 'race' else ['minisat', 'cadical'] if solver == 'race2' else [solver]
    cmds = [['/usr/bin/time', '-f', 'MAXRSS_KB=%M'] + cmd + SOLVERS[n] for n in names]
    idx, rc, so, se, dt = run_race(cmds, timeout)
    rss = None
    m = re.search(r'MAXRSS_KB=(\d+)', se or '')
    if m:
        rss = int(m.group(1))
    if idx is None:
        return None, {'error': 'timeout after %ds (solver %s)' % (timeout, solver), 'cmd': cmd}, dt, rss
    props, info = parse_cbmc_json(so)
    if props is None:
        return None, {'error': info + ' stderr: ' + se[-500:], 'cmd': cmd}, dt, rss
    info['cmd'] = ' '.join(cmds[idx][3:])
    info['solver'] = names[idx]
    return props, info, dt, rss


# ---------------------------------------------------------------------------
# replay
# ---------------------------------------------------------------------------
def _val_to_c(v):
    if 'members' in v:
        parts = []
        for m in v['members']:
            if m['name'].startswith('$pad'):
                continue
            parts.append('.%s = %s' % (m['name'], _val_to_c(m['value'])))
        return '{ ' + ', '.join(parts) + ' }'
    if 'elements' in v:
        return '{ ' + ', '.join(_val_to_c(e['value']) for e in v['elements']) + ' }'
    if v.get('name') == 'integer' or 'binary' in v:
        b = v.get('binary')
        t = v.get('type', '')
        if b is not None:
            n = int(b, 2)
            w = len(b)
            if not t.startswith('unsigned') and 'size_t' not in t and t not in ('_Bool',) and n >= (1 << (w - 1)) \
                    and (t.startswith('signed') or t in ('char', 'int', 'long', 'short', 'ssize_t') or 'ssize' in t):
                n -= (1 << w)
                if n == -(1 << (w - 1)):
                    return '(%d - 1)' % (n + 1)
                return str(n)
            return str(n) + ('ULL' if w > 32 else 'U')
        return re.sub(r'[a-zA-Z]+$', '', v.get('data', '0'))
    if v.get('name') == 'pointer':
        return '0'
    if v.get('name') == 'boolean':
        return '1' if v.get('data') else '0'
    return '0'


def extract_inputs(trace):
    for s in trace:
        if (s.get('stepType') == 'assignment' and s.get('lhs') == 'in' and not s.get('hidden')
                and isinstance(s.get('value'), dict) and 'members' in s['value']):
            return s['value']
    return None


def _summ(v, depth=0):
    if 'members' in v:
        return {m['name']: _summ(m['value'], depth + 1) for m in v['members'] if not m['name'].startswith('$pad')}
    if 'elements' in v:
        return [_summ(e['value'], depth + 1) for e in v['elements']]
    return re.sub(r'[a-zA-Z]+$', '', str(v.get('data', '?')))


class Replayer:
    def __init__(self, stage, prop_id):
        self.stage = stage
        self.prop_id = prop_id

    def replay(self, h, variant_defs, build, inputs_val, tag, failed_desc):
        rdir = os.path.join(VERIF, 'replays', self.prop_id, '%s.%s' % (h.name, tag))
        shutil.rmtree(rdir, ignore_errors=True)
        os.makedirs(rdir)
        init = _val_to_c(inputs_val)
        open(os.path.join(rdir, 'replay_inputs.h'), 'w').write(
            '/* counterexample found by CBMC for harness %s: %s */\n'
            'static const struct inputs verif_replay_inputs = %s;\n' % (h.name, failed_desc.replace('*/', '* /'), init))
        json.dump({'harness': h.name, 'property': self.prop_id, 'failed': failed_desc, 'inputs': _summ(inputs_val)},
                  open(os.path.join(rdir, 'inputs.json'), 'w'), indent=1)
        shutil.copy(os.path.join(VERIF, 'harness', h.src), os.path.join(rdir, 'harness.c'))
        # native build against the staged real sources
        flags = ['-g', '-O0', '-fsanitize=address,undefined', '-fno-sanitize-recover=undefined',
                 '-fno-omit-frame-pointer', '-w', '-DVERIF_REPLAY', '-D' + GUARD, '-DHAVE_CONFIG_H']
        objs = []
        try:
            todo = []
            have = set()
            for (path, fl) in build['units']:
                if build.get('model_files') and path in build['model_files'] and not build['model_files'][path]:
                    continue
                have.add(re.sub(r'^wrap_\d+_', '', os.path.basename(path)))
                todo.append((path, [x for x in fl if not x.startswith('-D__builtin_nanf')]))
            if h.gen or any(s.startswith('skeletons/') for s in h.sources):
                # complete the native link with the rest of the skeleton library
                skd = os.path.join(self.stage.src, 'skeletons')
                ginc = [x for x in build['hflags'] if x.startswith(self.stage.dir + '/gen.')]
                ginc = [y for x in ginc for y in ('-I', x)]
                sflags = ginc + ['-I', skd, '-I', self.stage.src] + list(h.src_defines) + (ALLOC_DEFS if h.alloc else [])
                for f in sorted(os.listdir(skd)):
                    if f.endswith('.c') and f != 'converter-example.c' and f not in have:
                        todo.append((os.path.join(skd, f), sflags))
            for e in h.native_extra:
                incs2 = [y for d in h.incdirs for y in ('-I', os.path.join(self.stage.src, d))]
                todo.append((os.path.join(self.stage.src, e), ['-I', self.stage.src] + incs2))
            with cf.ThreadPoolExecutor(max_workers=8) as ex:
                objs = list(ex.map(lambda t: self.stage.obj(t[0], flags + t[1], native=True), todo))
            hflags = flags + ['-I', rdir] + [x for x in build['hflags'] if not x.startswith('-D__builtin_nanf')] + list(variant_defs)
            exe = os.path.join(self.stage.dir, 'replay.%s.%s' % (h.name, tag))
            hsrcs = [os.path.join(VERIF, 'harness', h.src)] + [os.path.join(VERIF, 'harness', e) for e in h.extra_srcs]
            rc, so, se, _ = run(['gcc'] + hflags + hsrcs + objs + list(h.native_ldflags) + ['-lm', '-o', exe], limit=False, timeout=600)
            if rc != 0:
                return 'build-failed', (so + se)[-3000:], rdir
        except EngineError as e:
            return 'build-failed', str(e), rdir
        env = dict(os.environ)
        env['ASAN_OPTIONS'] = 'detect_leaks=1:abort_on_error=0:exitcode=99'
        env['UBSAN_OPTIONS'] = 'print_stacktrace=1:halt_on_error=1:exitcode=98'
        rc, so, se, dt = run(['timeout', '-s', 'KILL', '60', exe], env=env, limit=False, timeout=90)
        open(os.path.join(rdir, 'replay.log'), 'w').write('exit=%s\n%s\n%s' % (rc, so[-4000:], se[-8000:]))
        sh = ('#!/bin/sh\n# re-run: %s/bin/check %s --replay %s\ncat "$(dirname "$0")/replay.log"\n'
              % (VERIF, self.prop_id, rdir))
        open(os.path.join(rdir, 'run.sh'), 'w').write(sh)
        os.chmod(os.path.join(rdir, 'run.sh'), 0o755)
        if rc == 77:
            return 'assumption-unsatisfied', se[-1500:], rdir
        if rc == 0:
            return 'not-reproduced', se[-1500:], rdir
        return 'reproduced', ('exit=%s ' % rc) + se[-1500:], rdir


# ---------------------------------------------------------------------------
# per-harness pipeline
# ---------------------------------------------------------------------------
class Result:
    def __init__(self, h, variant):
        self.h = h
        self.variant = variant
        self.status = 'unknown'   # pass | violation | inconclusive | kf-confirmed | kf-gone
        self.msgs = []
        self.queries = 0
        self.props_total = 0
        self.props_failed = []
        self.witness = False
        self.bounds = {}
        self.info = {}
        self.wall = 0.0
        self.deepen_iters = 0
        self.replays = []
        self.unconfirmed = []
        self.restrict_sites = 0
        self.functions = []
        self.rss_kb = None
        self.violations = []      # (desc, replay dir)


class Engine:
    def __init__(self, prop_id, tier, harnesses, keep=False, update_hints=False, only=None):
        self.prop_id = prop_id
        self.tier = tier
        # harness/budget.json: harnesses that did not reach a verdict within the build budget on the unchanged
        # tree ('skip': outside the claim, reason recorded) or only fit the thorough tier ('thorough_only')
        bp = os.path.join(VERIF, 'harness', 'budget.json')
        self.budget = json.load(open(bp)) if os.path.exists(bp) else {'skip': {}, 'thorough_only': []}
        def _ok(h):
            if h.name in self.budget.get('skip', {}) and not os.environ.get('VERIF_NOSKIP'):
                return False
            if tier == 'quick' and h.name in self.budget.get('thorough_only', []):
                return False
            validated = h.name in self.budget.get('thorough_validated', [])
            # a harness demoted from the quick tier for cost ('thorough_only') is a thorough-only harness
            is_quick = 'quick' in h.tiers and h.name not in self.budget.get('thorough_only', [])
            if os.environ.get('VERIF_TRY_THOROUGH'):
                # maintenance mode: run exactly the thorough-only harnesses that are not validated yet
                return not is_quick and not validated and (not only or re.search(only, h.name))
            if tier == 'thorough' and not is_quick and not os.environ.get('VERIF_NOSKIP') and not validated:
                return False      # thorough-only harness not yet seen to conclude on the unchanged tree
            return tier in h.tiers and (not only or re.search(only, h.name))
        self.harnesses = [h for h in harnesses if _ok(h)]
        self.skipped = {h.name: self.budget['skip'][h.name] for h in harnesses if h.name in self.budget.get('skip', {})}
        self.stage = Stage(keep=keep)
        self.update_hints = update_hints
        self.kf = self._load_kf()
        self.hints = self._load_hints()
        self.replayer = Replayer(self.stage, prop_id)
        self.t0 = time.time()

    def _load_kf(self):
        p = os.path.join(VERIF, 'known_findings.json')
        if not os.path.exists(p):
            return []
        return [k for k in json.load(open(p)).get('findings', [])
                if self.prop_id in k.get('properties', [k.get('property')])]

    def _load_hints(self):
        # pool: max bound per loop over every known harness (seed for harnesses without own hints;
        # performance only - the deciding run always carries unwinding assertions)
        self.pool = {}
        hd = os.path.join(VERIF, 'hints')
        if os.path.isdir(hd):
            for f in os.listdir(hd):
                if f.endswith('.json'):
                    try:
                        for hh in json.load(open(os.path.join(hd, f))).values():
                            for k, v in hh.get('unwindset', {}).items():
                                # seeds are capped: over-unwinding data-dependent loops costs GBs of symex memory
                                # (recursion bounds 'function:N' are valid only where the function exists: not pooled)
                                if not k.startswith('harness') and re.search(r'\.\d+$', k):
                                    self.pool[k] = min(4, max(self.pool.get(k, 0), v))
                    except Exception:
                        pass
        p = os.path.join(VERIF, 'hints', self.prop_id + '.json')
        if os.path.exists(p):
            return json.load(open(p))
        return {}

    def _save_hints(self):
        os.makedirs(os.path.join(VERIF, 'hints'), exist_ok=True)
        p = os.path.join(VERIF, 'hints', self.prop_id + '.json')
        cur = {}
        if os.path.exists(p):      # merge: another run of the same property may have saved entries meanwhile
            try:
                cur = json.load(open(p))
            except Exception:
                cur = {}
        ran = set(h.name for h in self.harnesses)
        for k, v in self.hints.items():
            if k in ran or k not in cur:
                cur[k] = v
        json.dump(cur, open(p, 'w'), indent=1, sort_keys=True)

    # -- building ---------------------------------------------------------
    def build_units(self, h):
        st = self.stage
        incs = ['-I', COMMON, '-I', os.path.join(VERIF, 'ref'), '-I', os.path.join(VERIF, 'asn1'), '-I', os.path.join(st.src, 'skeletons'), '-I', st.src]
        for d in h.incdirs:
            incs += ['-I', os.path.join(st.src, d)]
        units = []
        model_files = {}
        srcflags = list(h.src_defines) + (ALLOC_DEFS if h.alloc else [])
        gens = h.gen if isinstance(h.gen, list) else ([h.gen] if h.gen else [])
        gen_incs = []
        for g in gens:
            d = st.gen({'modules': g['modules'], 'opts': g.get('opts', [])})
            gi = ['-I', d]
            gen_incs += gi
            gflags = list(g.get('cflags', []))
            if g.get('rename'):
                rn = make_rename_header(d, g['rename'])
                gflags += ['-include', rn]
            skip = set(g.get('skip', [])) | {'converter-example.c'}
            only_generated = g.get('only_generated', False)
            for f in sorted(os.listdir(d)):
                if not f.endswith('.c') or f in skip:
                    continue
                if only_generated and os.path.exists(os.path.join(st.src, 'skeletons', f)):
                    continue
                units.append((os.path.join(d, f), gi + incs + srcflags + gflags))
        for s in h.sources:
            units.append((os.path.join(st.src, s), gen_incs + incs + srcflags))
        models = list(h.models)
        if h.alloc and 'alloc' not in models:
            models.append('alloc')
        for m in models:
            f, in_replay = MODELS[m]
            p = os.path.join(COMMON, f)
            units.append((p, gen_incs + incs + list(h.model_defines)))
            model_files[p] = in_replay
        hflags = gen_incs + incs + list(h.defines)
        return {'units': units, 'hflags': hflags, 'model_files': model_files}

    def make_goto(self, h, build, variant_defs, wdir):
        objs = []
        for (path, fl) in build['units']:
            objs.append(self.stage.obj(path, GOTOCC_BASE + fl))
        hsrcs = [os.path.join(VERIF, 'harness', h.src)] + [os.path.join(VERIF, 'harness', e) for e in h.extra_srcs]
        a = os.path.join(wdir, 'a.gb')
        rc, so, se, _ = run(['goto-cc'] + GOTOCC_BASE + build['hflags'] + list(variant_defs) + hsrcs + objs + ['-o', a],
                            limit=False, timeout=900)
        if rc != 0:
            raise EngineError('goto-cc failed for harness %s:\n%s' % (h.name, (so + se)[-3000:]))
        if h.snapshot:
            objs = self.snapshot_wrap(h, build, a, wdir)
            rc, so, se, _ = run(['goto-cc'] + GOTOCC_BASE + build['hflags'] + list(variant_defs) + hsrcs + objs + ['-o', a],
                                limit=False, timeout=900)
            if rc != 0:
                raise EngineError('goto-cc (snapshot pass) failed for harness %s:\n%s' % (h.name, (so + se)[-3000:]))
        r = os.path.join(wdir, 'r.gb')
        res = fprestrict(a, r, h.fp, wdir, h.exclude, h.roots)
        os.unlink(a)
        return r, res

    def snapshot_wrap(self, h, build, gb, wdir):
        """C19: regenerate, from the goto binary's symbol table, code that snapshots and compares EVERY mutable
        object of static storage duration defined at file scope in the linked units (wrapper TU = #include of the
        real unit + accessor, so file-local statics are reachable by name with their real types)."""
        rc, so, se, _ = run(['goto-instrument', '--show-symbol-table', '--json-ui', gb], limit=False)
        st = None
        for x in json.loads(so):
            if 'symbolTable' in x:
                st = x['symbolTable']
        per_unit, local_statics = {}, []
        build['snapshot_bounds'] = {}
        unit_paths = {os.path.realpath(p): (p, fl) for (p, fl) in build['units']}
        for n, sy in st.items():
            if not sy.get('isStaticLifetime') or sy.get('isType') or sy['type'].get('id') == 'code':
                continue
            if n.startswith('__CPROVER') or sy.get('isExtern') or '$' in n:
                continue
            loc = sy.get('location', {}) or {}
            f = loc.get('file', '') or loc.get('namedSub', {}).get('file', {}).get('id', '')
            wd = loc.get('workingDirectory', '') or loc.get('namedSub', {}).get('working_directory', {}).get('id', '')
            fp_ = os.path.realpath(f if os.path.isabs(f) else os.path.join(wd, f))
            if fp_ not in unit_paths or fp_.startswith(VERIF):
                continue
            pt = sy.get('prettyType', '')
            if pt.startswith('const ') or '#constant' in json.dumps(sy['type'].get('namedSub', {}).get('#constant', '')) and sy['type'].get('namedSub', {}).get('#constant', {}).get('id') == '1':
                continue
            if '::' in n:
                local_statics.append(n)
                continue
            per_unit.setdefault(fp_, []).append(sy.get('baseName', n))
        self.snapshot_info = {'objects': sum(len(v) for v in per_unit.values()), 'function_local_statics': sorted(local_statics)}
        objs = []
        calls = []
        idx = 0
        for (path, fl) in build['units']:
            rp = os.path.realpath(path)
            names = sorted(set(per_unit.get(rp, [])))
            if not names:
                objs.append(self.stage.obj(path, GOTOCC_BASE + fl))
                continue
            idx += 1
            fn = 'verif_snap_unit_%d' % idx
            w = os.path.join(wdir, 'wrap_%d_%s' % (idx, os.path.basename(path)))
            with open(w, 'w') as f:
                f.write('#include "%s"\n#include <string.h>\n' % path)
                f.write('#ifdef VERIF_REPLAY\n#include <stdio.h>\n#include <stdlib.h>\n#undef __CPROVER_assert\n'
                        '#define __CPROVER_assert(c, m) do { if(!(c)) { fprintf(stderr, "REPLAY: CHECK FAILED: %s\\n", m); abort(); } } while(0)\n#endif\n')
                f.write('void %s(int mode) {\n' % fn)
                for nm in names:
                    # explicit constant-bound byte loops (CBMC's memcmp/memcpy models would need one unwinding per byte
                    # under a discovered bound; these loops get a generous fixed bound and stop at sizeof on their own)
                    f.write('  { static unsigned char snap[sizeof(%s)]; const unsigned char *p = (const unsigned char *)&%s;\n' % (nm, nm))
                    f.write('    if(mode == 0) { for(unsigned long i = 0; i < sizeof(%s); i++) snap[i] = p[i]; }\n' % nm)
                    f.write('    else { int same = 1; for(unsigned long i = 0; i < sizeof(%s); i++) if(snap[i] != p[i]) same = 0;\n' % nm)
                    f.write('      __CPROVER_assert(same, "static object %s (%s) is not modified by codec calls"); } }\n'
                            % (nm, os.path.basename(path)))
                f.write('}\n')
            calls.append(fn)
            for j in range(2 * len(names)):
                build['snapshot_bounds']['%s.%d' % (fn, j)] = 4096
            objs.append(self.stage.obj(w, GOTOCC_BASE + ['-I', os.path.dirname(path)] + fl))
        allc = os.path.join(wdir, 'snap_all.c')
        with open(allc, 'w') as f:
            for c in calls:
                f.write('void %s(int);\n' % c)
            f.write('void verif_snapshot_all(void) {\n' + ''.join('  %s(0);\n' % c for c in calls) + '}\n')
            f.write('void verif_compare_all(void) {\n' + ''.join('  %s(1);\n' % c for c in calls) + '}\n')
            f.write('int verif_snapshot_count = %d;\n' % self.snapshot_info['objects'])
        objs.append(self.stage.obj(allc, GOTOCC_BASE))
        # native replay links the same wrappers instead of the plain units
        wrapped = []
        i2 = 0
        for (path, fl) in build['units']:
            names = sorted(set(per_unit.get(os.path.realpath(path), [])))
            if names:
                i2 += 1
                wrapped.append((os.path.join(wdir, 'wrap_%d_%s' % (i2, os.path.basename(path))), ['-I', os.path.dirname(path)] + fl))
            else:
                wrapped.append((path, fl))
        wrapped.append((allc, []))
        build['units'] = wrapped
        if build.get('model_files') is None:
            build['model_files'] = {}
        return objs

    # -- one variant -----------------------------------------------------
    def run_variant(self, h, variant, variant_defs, build, expect_fail=False):
        res = Result(h, variant)
        t0 = time.time()
        wdir = os.path.join(self.stage.dir, 'h.%s.%s' % (h.name, variant))
        os.makedirs(wdir, exist_ok=True)
        logf = open(os.path.join(wdir, 'log.txt'), 'w', buffering=1)
        try:
            gb, restr = self.make_goto(h, build, variant_defs, wdir)
            res.restrict_sites = len(restr)
            hint = self.hints.get(h.name + ('' if variant == 'main' else ''), {})
            bounds = dict(hint.get('unwindset', {}))
            if h.snapshot:
                bounds.update(build.get('snapshot_bounds', {}))
            objbits = max(h.objbits, hint.get('objbits', 0))
            qcap = h.timeout or (600 if self.tier == 'quick' else 1800)
            dcap = h.maxdeepen or (900 if self.tier == 'quick' else 2400)
            if not hint.get('unwindset') and not hint.get('nodeepen'):
                bounds = dict(self.pool, **bounds)
                ok, info = deepen(h, gb, bounds, time.time() + dcap, objbits, logf)
                if not ok:
                    res.status = 'inconclusive'
                    res.msgs.append(str(info))
                    return res
                res.deepen_iters += info
            rounds = 0
            while True:
                rounds += 1
                props, info, dt, rss = decide(h, gb, bounds, qcap, objbits)
                res.queries += 1
                res.rss_kb = max(res.rss_kb or 0, rss or 0)
                if props is None:
                    res.status = 'inconclusive'
                    res.msgs.append(info.get('error', '?'))
                    return res
                logf.write('decide round %d: %d props, %.1fs\n' % (rounds, len(props), dt))
                unw = [p for p in props if p['status'] == 'FAILURE' and unwind_key(p['property'])]
                other = [p for p in props if p['status'] == 'FAILURE' and not unwind_key(p['property'])
                         and p.get('description') != 'VERIF_WITNESS']
                if unw and not other and rounds < 8:
                    # bounds too small (hint stale, code changed, or partial-loop deepening under-estimated):
                    # raise exactly the loops the deciding run reports, then look for further ones cheaply
                    for p in unw:
                        k = unwind_key(p['property'])
                        cur = bounds.get(k, h.unwind_default)
                        bounds[k] = min(cur * 2 if cur < 8 else cur + max(2, cur // 2), max(cap_for(h, k), cur + 1))
                    ok, dinfo = deepen(h, gb, bounds, time.time() + dcap, objbits, logf)
                    if not ok:
                        res.status = 'inconclusive'
                        res.msgs.append(str(dinfo))
                        return res
                    res.deepen_iters += dinfo
                    continue
                break
            res.bounds = bounds
            res.info = info
            res.info['decide_s'] = dt
            res.props_total = len(props)
            wit = [p for p in props if p.get('description') == 'VERIF_WITNESS']
            # several WITNESS() sites may exist (early-return paths): one reachable end is enough
            res.witness = any(p['status'] == 'FAILURE' for p in wit)
            errs = [p for p in props if p['status'] not in ('SUCCESS', 'FAILURE')]
            if other:
                self.triage(h, variant, variant_defs, build, other, res)
            elif errs and not unw:
                res.status = 'inconclusive'
                res.msgs.append('properties with status %s' % sorted(set(p['status'] for p in errs)))
            elif unw:
                # unwinding assertion still failing after deepening rounds
                res.status = 'inconclusive'
                res.msgs.append('unwinding assertions still failing: ' + ', '.join(p['property'] for p in unw[:5]))
            else:
                res.status = 'pass'
            if res.status == 'pass' and not res.witness and not h.nowitness and not expect_fail:
                res.status = 'inconclusive'
                res.msgs.append('vacuity witness not reachable (assumptions unsatisfiable or end of harness unreachable)')
            if res.status == 'pass' and self.update_hints and variant == 'main':
                self.hints[h.name] = {'unwindset': bounds, 'objbits': objbits}
            return res
        except EngineError as e:
            res.status = 'inconclusive'
            res.msgs.append(str(e))
            return res
        finally:
            res.wall = time.time() - t0
            logf.close()
            if not self.stage.keep:
                for f in ('r.gb',):
                    try:
                        os.unlink(os.path.join(wdir, f))
                    except OSError:
                        pass

    def triage(self, h, variant, variant_defs, build, failed, res):
        """Replay counterexamples natively; classify."""
        # group by distinct inputs
        seen = {}
        confirmed = 0
        mismatches = 0
        for p in failed:
            desc = '%s: %s' % (p['property'], p.get('description', ''))
            loc = p.get('sourceLocation', {})
            where = '%s:%s' % (os.path.basename(loc.get('file', '?')), loc.get('line', '?'))
            res.props_failed.append(desc + ' @' + where)
            iv = extract_inputs(p.get('trace', []))
            if iv is None:
                res.msgs.append('no inputs in trace for ' + desc)
                mismatches += 1
                continue
            key = json.dumps(_summ(iv), sort_keys=True)
            if key in seen:
                st = seen[key]
            else:
                tag = '%s.%d' % (variant, len(seen))
                st = self.replayer.replay(h, variant_defs, build, iv, tag, desc + ' @' + where)
                seen[key] = st
                res.replays.append({'failed': desc, 'outcome': st[0], 'dir': st[2], 'inputs': _summ(iv)})
            if st[0] == 'reproduced':
                confirmed += 1
                res.violations.append((desc + ' @' + where, st[2]))
            elif UNCONFIRMABLE.search(p.get('description', '')) and st[0] == 'not-reproduced':
                res.unconfirmed.append(desc + ' @' + where)
            else:
                mismatches += 1
                res.msgs.append('counterexample for [%s] did not replay natively (%s): %s' % (desc, st[0], st[1][-300:]))
        if confirmed:
            res.status = 'violation'
        elif mismatches:
            res.status = 'inconclusive'
        else:
            res.status = 'pass'   # only unconfirmable-UB reports

    # -- one harness (main + known-finding variants) -----------------------
    def run_harness(self, h):
        results = []
        try:
            build = self.build_units(h)
        except EngineError as e:
            r = Result(h, 'main')
            r.status = 'inconclusive'
            r.msgs.append(str(e))
            return [r]
        kfs = [k for k in self.kf if re.fullmatch(k.get('harness_re', k.get('harness', '')), h.name)]
        defs = []
        if kfs:
            defs = ['-DVERIF_KF_EXCLUDE=(' + ')||('.join(k['predicate'] for k in kfs) + ')']
        r = self.run_variant(h, 'main', defs, build)
        results.append(r)
        for i, k in enumerate(kfs):
            r2 = self.run_variant(h, 'kf%d' % i, ['-DVERIF_KF_ONLY=(' + k['predicate'] + ')'], build, expect_fail=True)
            r2.kf = k
            if r2.status == 'violation':
                r2.status = 'kf-confirmed'
            elif r2.status == 'pass':
                r2.status = 'kf-gone'
            results.append(r2)
        return results

    # -- whole property ----------------------------------------------------
    def run_all(self):
        st = self.stage
        allres = []
        try:
            st.sync()
            if any(h.gen for h in self.harnesses):
                st.build_compiler()
            hook_msgs = self.validate_hooks()
            jobs = max(1, min(NCPU, len(self.harnesses), int(os.environ.get('VERIF_PAR', '10'))))
            with cf.ThreadPoolExecutor(max_workers=jobs) as ex:
                futs = {ex.submit(self.run_harness, h): h for h in self.harnesses}
                for f in cf.as_completed(futs):
                    h = futs[f]
                    try:
                        rs = f.result()
                    except Exception as e:  # engine bug: never a pass
                        r = Result(h, 'main')
                        r.status = 'inconclusive'
                        r.msgs.append('engine exception: %r' % e)
                        rs = [r]
                    for r in rs:
                        log('[%s] %-40s %-8s %-12s %6.1fs props=%d q=%d %s' % (
                            self.prop_id, h.name, r.variant, r.status, r.wall, r.props_total, r.queries,
                            ('; '.join(r.msgs))[:600]))
                    allres.extend(rs)
            if self.update_hints:
                self._save_hints()
            return allres, hook_msgs
        finally:
            st.cleanup()

    def validate_hooks(self):
        return []


def make_rename_header(gendir, suffix):
    """Header that suffixes every external identifier declared by generated headers (C13)."""
    names = set()
    for f in os.listdir(gendir):
        if not (f.endswith('.h') or f.endswith('.c')):
            continue
        if os.path.exists(os.path.join(REPO, 'skeletons', f)):
            continue
        txt = open(os.path.join(gendir, f)).read()
        for m in re.finditer(r'\b(asn_(?:DEF|SPC|PER|OER|MBR|TYPE|MAP|IOS|VAL|DFL|STRUCT)_\w+)', txt):
            names.add(m.group(1))
        for m in re.finditer(r'\btypedef\s+(?:struct|enum|union)?\s*\w*\s*\{', txt):
            pass
        for m in re.finditer(r'\}\s*(\w+)\s*;', txt):
            names.add(m.group(1))
        for m in re.finditer(r'\btypedef\s+\w[\w\s\*]*?\b(\w+)\s*;', txt):
            names.add(m.group(1))
        for m in re.finditer(r'\b(?:struct|enum|union)\s+(\w+)\s*\{', txt):
            names.add(m.group(1))
        for m in re.finditer(r'^\s*(\w+_PR(?:_\w+)?)\b', txt, re.M):
            names.add(m.group(1))
        for m in re.finditer(r'^\s*(\w+)\s*=\s*-?\d+\s*,?\s*(?:/\*.*\*/)?\s*$', txt, re.M):
            names.add(m.group(1))
        for m in re.finditer(r'^(?:extern\s+)?\w[\w\s\*]*?\b(\w+)\s*\(', txt, re.M):
            names.add(m.group(1))
        for m in re.finditer(r'^#define\s+(\w+)', txt, re.M):
            pass
    keep = set()
    skel = os.path.join(REPO, 'skeletons')
    names = {n for n in names if not n.startswith('_') and n not in ('int', 'long', 'if', 'for', 'while', 'return', 'sizeof', 'switch')}
    p = os.path.join(gendir, 'rename_%s.h' % suffix)
    with open(p, 'w') as f:
        for n in sorted(names):
            f.write('#define %s %s_%s\n' % (n, n, suffix))
    return p
