#include <stdio.h>
#include <math.h>
#include <stdint.h>
#include <string.h>
#include <stdlib.h>
#define ilogb m_ilogb
#define ldexp m_ldexp
#define finite m_finite
#define __finite m__finite
#define __builtin_isfinite m_isfinite
#include "libm_model.c"
#undef ilogb
#undef ldexp
int main(){ uint64_t seeds[]={0,1,2,3,0xfffffffffffffULL,0x10000000000000ULL,0x10000000000001ULL,0x7fefffffffffffffULL,0x7ff0000000000000ULL,0x7ff8000000000000ULL,0x3ff0000000000000ULL,0x0008000000000000ULL,0x000fffffffffffffULL,0x0010000000000000ULL,0x4340000000000000ULL};
 int bad=0; long n=0; srand(1);
 for(int rep=0;rep<400000;rep++){ uint64_t u = rep<15?seeds[rep]: ((uint64_t)rand()<<33) ^ ((uint64_t)rand()<<11) ^ rand(); if(rep&1) u |= 1ULL<<63; if(rep%7==0) u &= 0x800fffffffffffffULL; 
   double d; memcpy(&d,&u,8);
   if(m_ilogb(d)!=ilogb(d)){bad++; printf("ilogb %a %d %d\n",d,m_ilogb(d),ilogb(d));}
   if(m_isfinite(d)!=!!isfinite(d)) bad++;
   int ns[]={0,1,-1,8,52,53,-52,-53,-54,-55,1023,-1022,-1074,-1075,2000,-2100,rand()%2200-1100, -(int)((u>>52)&0x7ff)+rand()%60-30};
   for(int i=0;i<18;i++){ double a=m_ldexp(d,ns[i]), b=ldexp(d,ns[i]); n++; if(memcmp(&a,&b,8) && !(a!=a && b!=b)){bad++; if(bad<10)printf("ldexp %a %d: %a %a\n",d,ns[i],a,b);} }
 }
 printf("checked %ld bad %d\n",n,bad); return bad!=0; }
