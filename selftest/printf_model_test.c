#include <stdio.h>
#include <stdlib.h>
#include <string.h>
#include <stdarg.h>
#define __CPROVER_assert(c, m) do { if(!(c)) { printf("model: %s\n", m); exit(1); } } while(0)
#define vsnprintf m_vsnprintf
#define snprintf m_snprintf
#include "printf_model.c"
#undef vsnprintf
#undef snprintf
static int bad;
#define T(...) do { char a[64], b[64]; for(size_t sz = 0; sz <= 40; sz += (sz < 4 ? 1 : 9)) { memset(a, 'x', 64); memset(b, 'x', 64); \
    int ra = m_snprintf(a, sz, __VA_ARGS__), rb = snprintf(b, sz, __VA_ARGS__); \
    if(ra != rb || memcmp(a, b, 64)) { bad++; printf("MISMATCH size %zu: %d '%s' vs %d '%s'\n", sz, ra, a, rb, b); } } } while(0)
int main(void) {
    long vals[] = {0, 1, -1, 9, 10, -10, 99, 100, 12345, -12345, 2147483647L, -2147483648L, 9223372036854775807L, -9223372036854775807L - 1};
    for(unsigned i = 0; i < sizeof(vals) / sizeof(vals[0]); i++) {
        long v = vals[i];
        T("%ld", v); T("%lu", (unsigned long)v); T("%d", (int)v); T("%u", (unsigned)v); T("%lld", (long long)v);
        T("%jd", (intmax_t)v); T("%ju", (uintmax_t)v); T("%zu", (size_t)v); T("%zd", (ssize_t)v);
        T("%04d%02d", (int)(v % 10000), (int)(v % 100)); T("%+03ld%02ld", v % 24, labs(v % 60)); T("%02x", (unsigned)(v & 0xff));
        T("<%s>%c%%", "abc", 'q'); T("%02d", (int)(v % 100)); T("%x", (unsigned)v); T("%lx", (unsigned long)v);
    }
    printf("printf model: %d mismatches\n", bad);
    return bad != 0;
}
