/* Direct entry points of one transfer syntax (public API of the skeletons).
 * -DSYN_DER | -DSYN_UPER | -DSYN_OER */
#ifndef CODEC_H
#define CODEC_H
#include <asn_application.h>
#if defined(SYN_DER)
#define SYN_NAME "DER"
/* returns bytes or -1 */
static ssize_t do_encode(const asn_TYPE_descriptor_t *td, const void *sptr, asn_app_consume_bytes_f *cb, void *key) {
    asn_enc_rval_t er = der_encode(td, sptr, cb, key);
    return er.encoded;
}
static asn_dec_rval_t do_decode(const asn_TYPE_descriptor_t *td, void **sptr, const void *buf, size_t size) {
    asn_codec_ctx_t ctx; memset(&ctx, 0, sizeof(ctx));
    return ber_decode(&ctx, td, sptr, buf, size);
}
#elif defined(SYN_OER)
#define SYN_NAME "OER"
static ssize_t do_encode(const asn_TYPE_descriptor_t *td, const void *sptr, asn_app_consume_bytes_f *cb, void *key) {
    asn_enc_rval_t er = oer_encode(td, sptr, cb, key);
    return er.encoded;
}
static asn_dec_rval_t do_decode(const asn_TYPE_descriptor_t *td, void **sptr, const void *buf, size_t size) {
    asn_codec_ctx_t ctx; memset(&ctx, 0, sizeof(ctx));
    return oer_decode(&ctx, td, sptr, buf, size);
}
#elif defined(SYN_UPER)
#define SYN_NAME "UPER"
/* uper_encode reports bits; a complete encoding is at least one octet (X.691 11.1), as asn_encode() does */
static ssize_t do_encode(const asn_TYPE_descriptor_t *td, const void *sptr, asn_app_consume_bytes_f *cb, void *key) {
    asn_enc_rval_t er = uper_encode(td, 0, sptr, cb, key);
    if(er.encoded < 0) return -1;
    if(er.encoded == 0) { if(cb("\0", 1, key) < 0) return -1; return 1; }
    return (er.encoded + 7) >> 3;
}
static asn_dec_rval_t do_decode(const asn_TYPE_descriptor_t *td, void **sptr, const void *buf, size_t size) {
    asn_codec_ctx_t ctx; memset(&ctx, 0, sizeof(ctx));
    return uper_decode_complete(&ctx, td, sptr, buf, size);
}
#else
#error "define SYN_DER, SYN_UPER or SYN_OER"
#endif
#endif
