/* C05: restartable decoding (BER, OER): the encoding of a symbolic value (reference encoder, so independent
 * of asn1c's encoder) is fed in two chunks split at a symbolic point k: the first call on the prefix must return
 * RC_WMORE (never OK, never FAIL) with consumed <= k, the second call on the unconsumed rest returns RC_OK,
 * total consumed == length, value == the value. With -DTHREE a second symbolic split point is added. */
#include "verif.h"
#include "ref_enc.h"
#include DRV
#include "codec.h"
#include "exact_buf.h"
struct inputs { struct tval v; uint8_t k, k2; int8_t alloc_fail_at; };
#include "verif_in.h"
#ifdef ALLOC_FAIL
extern int verif_alloc_fail_at, verif_alloc_count;
#endif
static uint8_t *chunk(const uint8_t *src, size_t n) {
    return exact_copy(src, n);
}
void harness(void) {
    VERIF_INPUTS();
    ASSUME(tv_valid(&in.v));
    uint8_t enc[TV_MAXENC]; size_t len;
#if defined(SYN_DER)
    len = ref_der(&in.v, enc, sizeof(enc));
#else
    len = ref_oer(&in.v, enc, sizeof(enc));
#endif
    ASSUME(len <= TV_MAXENC);
#ifdef FIXED_K      /* split point enumerated instead of symbolic (one query per k) */
    in.k = FIXED_K;
#endif
    ASSUME(in.k < len);                      /* proper prefix */
    TYPE_T *v = 0;
    size_t done = 0;
    uint8_t *c1 = chunk(enc, in.k);
#ifdef ALLOC_FAIL
    /* C14: one allocation (symbolic index, over both calls) fails: every outcome must be clean and leak-free */
    ASSUME(in.alloc_fail_at >= -1 && in.alloc_fail_at <= 8);
    verif_alloc_fail_at = in.alloc_fail_at; verif_alloc_count = 0;
#endif
    asn_dec_rval_t r1 = do_decode(&TYPE_DEF, (void **)&v, c1, in.k);
#ifdef ALLOC_FAIL
    CHECK(r1.code == RC_WMORE || r1.code == RC_FAIL, "prefix under allocation failure: WMORE or FAIL");
    CHECK(r1.consumed <= in.k, "consumed does not exceed the prefix");
    free(c1);
    if(r1.code != RC_WMORE) { verif_alloc_fail_at = -1; if(v) ASN_STRUCT_FREE(TYPE_DEF, v); WITNESS(); return; }
    {
        uint8_t *cr = chunk(enc + r1.consumed, len - r1.consumed);
        asn_dec_rval_t rr = do_decode(&TYPE_DEF, (void **)&v, cr, len - r1.consumed);
        int failed_alloc = verif_alloc_fail_at >= 0 && verif_alloc_count > verif_alloc_fail_at;
        verif_alloc_fail_at = -1;
        if(!failed_alloc) { CHECK(rr.code == RC_OK && r1.consumed + rr.consumed == len, "without a failed allocation the rest completes"); if(rr.code == RC_OK && v) CHECK(tv_match(&in.v, v), "value"); }
        else CHECK(rr.code == RC_OK || rr.code == RC_FAIL, "after a failed allocation: OK or FAIL, nothing else");
        free(cr);
        if(v) ASN_STRUCT_FREE(TYPE_DEF, v);
        WITNESS();
        return;
    }
#endif
    CHECK(r1.code == RC_WMORE, "a proper prefix of a valid encoding yields RC_WMORE");
    CHECK(r1.consumed <= in.k, "consumed does not exceed the prefix");
    free(c1);
    if(r1.code != RC_WMORE || r1.consumed > in.k) return;
    done = r1.consumed;
#ifdef THREE
    ASSUME(in.k2 >= done && in.k2 < len && in.k2 >= in.k);
    uint8_t *c2 = chunk(enc + done, in.k2 - done);
    asn_dec_rval_t r2 = do_decode(&TYPE_DEF, (void **)&v, c2, in.k2 - done);
    CHECK(r2.code == RC_WMORE, "still RC_WMORE on a longer proper prefix");
    CHECK(r2.consumed <= in.k2 - done, "consumed does not exceed what was presented");
    free(c2);
    if(r2.code != RC_WMORE || r2.consumed > in.k2 - done) return;
    done += r2.consumed;
#endif
    uint8_t *c3 = chunk(enc + done, len - done);
    asn_dec_rval_t r3 = do_decode(&TYPE_DEF, (void **)&v, c3, len - done);
    CHECK(r3.code == RC_OK, "presenting the rest completes with RC_OK");
    CHECK(done + r3.consumed == len, "total consumed equals the length of the encoding");
    if(r3.code == RC_OK && v) CHECK(tv_match(&in.v, v), "chunked decoding yields the value");
    free(c3);
    if(v) ASN_STRUCT_FREE(TYPE_DEF, v);
    WITNESS();
}
