/* C07: encoder API contract through asn_encode / asn_encode_to_buffer / asn_encode_to_new_buffer.
 * MODE_CBFAIL : sink callback fails at a symbolic invocation index (or never)
 * MODE_BUFFER : asn_encode_to_buffer into an exact-size heap object of symbolic size 0..TV_MAXENC+1
 * MODE_NEWBUF : asn_encode_to_new_buffer under at most one (symbolic) allocation failure
 * MODE_ILLFORMED: structure built from values outside the constraints (tv_wellformed but maybe !tv_valid)
 */
#include "verif.h"
#include "ref_enc.h"
#include DRV
#include "exact_buf.h"
#include <asn_application.h>
#ifndef tv_wellformed
#define tv_wellformed tv_valid
#endif
struct inputs { struct tval v; int8_t fail_at; uint8_t bufsize; int8_t alloc_fail_at; };
#include "verif_in.h"
#ifdef MODE_NEWBUF
extern int verif_alloc_fail_at, verif_alloc_count;
#endif

static size_t ref_len(uint8_t *ref) {
#if SYNTAX_IS == 0
    return ref_der(&in.v, ref, TV_MAXENC);
#elif SYNTAX_IS == 1
    return ref_uper(&in.v, ref, TV_MAXENC);
#else
    return ref_oer(&in.v, ref, TV_MAXENC);
#endif
}

void harness(void) {
    VERIF_INPUTS();
#ifdef TV_HAS_FIX
    tv_fix(&in.v);   /* concrete value: only the fault schedule stays symbolic */
#endif
    TYPE_T val; struct tv_store store;
#ifdef MODE_ILLFORMED
    ASSUME(tv_wellformed(&in.v));
#else
    ASSUME(tv_valid(&in.v));
#endif
    tv_build(&in.v, &val, &store);
#if defined(MODE_CBFAIL) || defined(MODE_ILLFORMED)
    struct sink s; sink_init(&s);
#ifdef MODE_CBFAIL
    ASSUME(in.fail_at >= -1 && in.fail_at <= 8);
    s.fail_at = in.fail_at;
#endif
    errno = 0;
    asn_enc_rval_t er = asn_encode(0, SYNTAX, &TYPE_DEF, &val, sink_cb, &s);
    if(s.failed) {
        CHECK(er.encoded == -1, "failing callback makes asn_encode return -1");
        CHECK(errno == EIO, "failing callback sets errno EIO");
    } else if(er.encoded >= 0) {
        CHECK((size_t)er.encoded == s.len, "reported size equals bytes delivered to the callback");
    } else {
        CHECK(er.encoded == -1 && errno != 0, "unencodable value: -1 with an errno");
#ifndef MODE_ILLFORMED
        CHECK(0, "a valid value must be encodable when the callback does not fail");
#endif
    }
#elif defined(MODE_BUFFER)
    ASSUME(in.bufsize <= TV_MAXENC + 1);
    static const uint8_t fill[TV_MAXENC + 2];
    uint8_t *buf = exact_copy(fill, in.bufsize);      /* exact-size object: any write beyond it is a bounds violation */
    asn_enc_rval_t er = asn_encode_to_buffer(0, SYNTAX, &TYPE_DEF, &val, buf, in.bufsize);
    uint8_t ref[TV_MAXENC]; size_t rl = ref_len(ref);
    CHECK(er.encoded >= 0 && (size_t)er.encoded == rl, "asn_encode_to_buffer reports the full size for every buffer size");
    if((size_t)er.encoded <= in.bufsize)
        for(size_t i = 0; i < TV_MAXENC; i++) if(i < rl) CHECK(buf[i] == ref[i], "buffer holds the encoding when it fits");
    free(buf);
#elif defined(MODE_NEWBUF)
    ASSUME(in.alloc_fail_at >= -1 && in.alloc_fail_at <= 6);
    verif_alloc_fail_at = in.alloc_fail_at; verif_alloc_count = 0;
    asn_encode_to_new_buffer_result_t r = asn_encode_to_new_buffer(0, SYNTAX, &TYPE_DEF, &val);
    verif_alloc_fail_at = -1;
    uint8_t ref[TV_MAXENC]; size_t rl = ref_len(ref);
    if(r.buffer) {
        CHECK(r.result.encoded >= 0 && (size_t)r.result.encoded == rl, "new buffer: exact encoded length");
        for(size_t i = 0; i < TV_MAXENC; i++) if(i < rl) CHECK(((uint8_t *)r.buffer)[i] == ref[i], "new buffer holds the encoding");
        CHECK(((uint8_t *)r.buffer)[rl] == 0, "new buffer is NUL-terminated just past the encoding");
        free(r.buffer);
    } else {
        CHECK(in.alloc_fail_at >= 0 || r.result.encoded < 0, "NULL buffer only after an allocation failure or an encoding failure");
    }
#endif
    WITNESS();
}
