/* C08: asn_check_constraints(value) == 0  <=>  the value satisfies the constraints written in the ASN.1 source
 * (predicate transcribed in the driver); on failure the message is bounded and terminated for every buffer
 * size and every vsnprintf result. */
#include "verif.h"
#include "ref_enc.h"
#include DRV
#include "exact_buf.h"
#include <constraints.h>
#ifndef tv_wellformed
#define tv_wellformed tv_valid
#endif
#define EMAX 24
struct inputs { struct tval v; uint8_t errsize; int16_t vret; uint8_t fill; };
#include "verif_in.h"
extern int verif_vsnprintf_ret; extern unsigned char verif_vsnprintf_fill;
void harness(void) {
    VERIF_INPUTS();
    ASSUME(tv_wellformed(&in.v));
    ASSUME(in.errsize <= EMAX);
    verif_vsnprintf_ret = in.vret; verif_vsnprintf_fill = in.fill;
    TYPE_T val; struct tv_store store;
    tv_build(&in.v, &val, &store);
    static const uint8_t zeros[EMAX + 1];
    char *errbuf = (char *)exact_copy(zeros, in.errsize);           /* exact-size object */
    size_t errlen = in.errsize;
    int r = asn_check_constraints(&TYPE_DEF, &val, errbuf, &errlen);
    CHECK(r == 0 || r == -1, "returns 0 or -1");
    CHECK((r == 0) == (tv_valid(&in.v) != 0), "accepts exactly the values the ASN.1 source allows");
    if(r == -1 && in.errsize > 0) {
        CHECK(errlen < in.errsize, "message length is below the supplied size");
        if(errlen < in.errsize) CHECK(errbuf[errlen] == 0, "message is NUL-terminated at its reported length");
    }
    free(errbuf);
    WITNESS();
}
