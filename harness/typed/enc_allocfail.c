/* C14 (h5): encoding with at most one failed allocation either fails cleanly (-1) or produces the reference bytes; no leak. */
#include "verif.h"
#include "ref_enc.h"
#include DRV
#include "codec.h"
struct inputs { struct tval v; int8_t alloc_fail_at; };
#include "verif_in.h"
extern int verif_alloc_fail_at, verif_alloc_count;
void harness(void) {
    VERIF_INPUTS();
    ASSUME(tv_valid(&in.v));
    ASSUME(in.alloc_fail_at >= -1 && in.alloc_fail_at <= 6);
    TYPE_T val; struct tv_store store;
    tv_build(&in.v, &val, &store);
    struct sink s; sink_init(&s);
    verif_alloc_fail_at = in.alloc_fail_at; verif_alloc_count = 0;
    ssize_t n = do_encode(&TYPE_DEF, &val, sink_cb, &s);
    int failed_alloc = verif_alloc_fail_at >= 0 && verif_alloc_count > verif_alloc_fail_at;
    verif_alloc_fail_at = -1;
    uint8_t ref[TV_MAXENC]; size_t rl;
#if defined(SYN_DER)
    rl = ref_der(&in.v, ref, sizeof(ref));
#elif defined(SYN_OER)
    rl = ref_oer(&in.v, ref, sizeof(ref));
#else
    rl = ref_uper(&in.v, ref, sizeof(ref));
#endif
    if(n >= 0) {
        CHECK((size_t)n == s.len && s.len == rl, "a successful call reports and delivers the full encoding");
        if(s.len == rl) for(size_t i = 0; i < TV_MAXENC; i++) if(i < rl) CHECK(s.buf[i] == ref[i], "bytes equal the reference");
    } else CHECK(failed_alloc, "encoding a valid value fails only when an allocation failed");
    WITNESS();
}
