/* The decoder accepts the reference (standard) encoding of every value and yields that value
 * (used by C13: codecs generated with other options decode the same bytes to the same value; and by C03). */
#include "verif.h"
#include "ref_enc.h"
#include DRV
#include "codec.h"
#include "exact_buf.h"
struct inputs { struct tval v; };
#include "verif_in.h"
void harness(void) {
    VERIF_INPUTS();
    ASSUME(tv_valid(&in.v));
    uint8_t enc[TV_MAXENC]; size_t len;
#if defined(SYN_DER)
    len = ref_der(&in.v, enc, sizeof(enc));
#elif defined(SYN_OER)
    len = ref_oer(&in.v, enc, sizeof(enc));
#else
    len = ref_uper(&in.v, enc, sizeof(enc));
#endif
    ASSUME(len <= TV_MAXENC);
    uint8_t *data = exact_copy(enc, len);
    TYPE_T *back = 0;
    asn_dec_rval_t dr = do_decode(&TYPE_DEF, (void **)&back, data, len);
    CHECK(dr.code == RC_OK, "the standard encoding is accepted");
    CHECK(dr.consumed == len, "and fully consumed");
    if(dr.code == RC_OK && back) CHECK(tv_match(&in.v, back), "and yields the value");
    if(back) ASN_STRUCT_FREE(TYPE_DEF, back);
    free(data);
    WITNESS();
}
