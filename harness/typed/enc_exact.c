/* C02: for every value of the corpus type the encoder's bytes are exactly the reference encoder's
 * (X.690 DER / X.691 canonical unaligned PER / X.696 canonical OER). */
#include "verif.h"
#include "ref_enc.h"
#include DRV
#include "codec.h"
struct inputs { struct tval v; };
#include "verif_in.h"
void harness(void) {
    VERIF_INPUTS();
    ASSUME(tv_valid(&in.v));
    TYPE_T val; struct tv_store store;
    tv_build(&in.v, &val, &store);
    struct sink s; sink_init(&s);
    ssize_t n = do_encode(&TYPE_DEF, &val, sink_cb, &s);
    CHECK(n >= 0, "encoding a valid value succeeds");
    CHECK((size_t)n == s.len, "reported size equals bytes delivered");
    uint8_t ref[TV_MAXENC]; size_t rl;
#if defined(SYN_DER)
    rl = ref_der(&in.v, ref, sizeof(ref));
#elif defined(SYN_OER)
    rl = ref_oer(&in.v, ref, sizeof(ref));
#else
    rl = ref_uper(&in.v, ref, sizeof(ref));
#endif
    CHECK(rl <= TV_MAXENC && rl <= SINK_MAX, "reference fits (harness sanity)");
    CHECK(s.len == rl, "encoded length equals the reference encoder's");
    if(s.len == rl) for(size_t i = 0; i < TV_MAXENC; i++) if(i < rl) CHECK(s.buf[i] == ref[i], "encoded bytes equal the reference encoder's");
    WITNESS();
}
