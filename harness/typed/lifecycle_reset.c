/* C14 (h4): decode arbitrary octets (ok, starved or failed) -> ASN_STRUCT_RESET leaves an all-zero structure ->
 * decoding a valid encoding of a symbolic value into it behaves exactly as into a fresh one -> free; no leak. */
#include "verif.h"
#include "ref_enc.h"
#include DRV
#include "codec.h"
#include "exact_buf.h"
#ifndef NBYTES
#define NBYTES 4
#endif
struct inputs { uint8_t junk[NBYTES]; uint8_t jsize; struct tval v; };
#include "verif_in.h"
void harness(void) {
    VERIF_INPUTS();
    ASSUME(in.jsize <= NBYTES && tv_valid(&in.v));
    uint8_t *d1 = exact_copy(in.junk, in.jsize);
    TYPE_T st; memset(&st, 0, sizeof(st));
    TYPE_T *p = &st;
    (void)do_decode(&TYPE_DEF, (void **)&p, d1, in.jsize);
    free(d1);
    ASN_STRUCT_RESET(TYPE_DEF, &st);
    const uint8_t *raw = (const uint8_t *)&st;
    for(size_t i = 0; i < sizeof(st); i++) CHECK(raw[i] == 0, "ASN_STRUCT_RESET leaves a zeroed structure");
    uint8_t enc[TV_MAXENC]; size_t len;
#if defined(SYN_DER)
    len = ref_der(&in.v, enc, sizeof(enc));
#elif defined(SYN_OER)
    len = ref_oer(&in.v, enc, sizeof(enc));
#else
    len = ref_uper(&in.v, enc, sizeof(enc));
#endif
    ASSUME(len <= TV_MAXENC);
    uint8_t *d2 = exact_copy(enc, len);
    asn_dec_rval_t r = do_decode(&TYPE_DEF, (void **)&p, d2, len);
    CHECK(r.code == RC_OK && r.consumed == len, "decoding into the reset structure succeeds like into a fresh one");
    if(r.code == RC_OK) CHECK(tv_match(&in.v, &st), "and yields the value");
    free(d2);
    ASN_STRUCT_RESET(TYPE_DEF, &st);
    WITNESS();
}
