/* C06: two in-memory structures that denote the same abstract value (driver-specific representation change)
 * produce byte-identical canonical encodings. */
#include "verif.h"
#include "ref_enc.h"
#include DRV
#include "codec.h"
struct inputs { struct tval v; struct talt alt; };
#include "verif_in.h"
void harness(void) {
    VERIF_INPUTS();
    ASSUME(tv_valid(&in.v) && talt_valid(&in.alt));
    TYPE_T a, b; struct tv_store sa, sb;
    tv_build(&in.v, &a, &sa);
    tv_build_alt(&in.v, &in.alt, &b, &sb);
    struct sink s1, s2; sink_init(&s1); sink_init(&s2);
    ssize_t n1 = do_encode(&TYPE_DEF, &a, sink_cb, &s1);
    ssize_t n2 = do_encode(&TYPE_DEF, &b, sink_cb, &s2);
    CHECK(n1 >= 0 && n2 >= 0, "both representations are encodable");
    CHECK(s1.len == s2.len, "same length for both representations");
    CHECK(s1.len <= SINK_MAX, "fits the sink (harness sanity)");
    if(s1.len == s2.len) for(size_t i = 0; i < TV_MAXENC; i++) if(i < s1.len) CHECK(s1.buf[i] == s2.buf[i], "byte-identical canonical encoding");
    /* compare_struct on two different representations is NOT asserted: C06 speaks about encoder output only
     * (BIT_STRING_compare / INTEGER_compare do distinguish unused-bit noise and redundant sign octets). */
    WITNESS();
}
