/* C03: every member of a family of alternative VALID encodings of a value (produced by the independent
 * reference encoder: BER length forms per TLV - minimal / long / long with leading zero / indefinite -,
 * DEFAULT present, SET order, constructed strings, one unknown extension addition) decodes to that value. */
#include "verif.h"
#include "ref_enc.h"
#include DRV
#include "codec.h"
#include "exact_buf.h"
#ifndef TV_HAS_VARIANT
struct tvariant { uint8_t unused; };
static int tvar_valid(const struct tvariant *x) { (void)x; return 1; }
#define ref_ber_variant(v, x, out, cap) ref_der(v, out, cap)
#endif
#define VMAX (TV_MAXENC + 24)
#if VMAX > 40
#undef VMAX
#define VMAX 40     /* exact_copy supports up to 40 octets */
#endif
struct inputs { struct tval v; struct tvariant var; uint8_t lf[8]; };
#include "verif_in.h"
void harness(void) {
    VERIF_INPUTS();
    ASSUME(tv_valid(&in.v) && tvar_valid(&in.var));
    uint8_t enc[VMAX]; size_t len;
#if defined(SYN_DER)
    struct lenforms lf; lf.next = 0;
    for(int i = 0; i < 8; i++) { ASSUME(in.lf[i] <= 3); lf.f[i] = in.lf[i]; }
#ifdef FIXED_FORMS   /* enumerated length-form assignment instead of a symbolic one */
    { static const uint8_t ff[8] = { FIXED_FORMS }; for(int i = 0; i < 8; i++) lf.f[i] = ff[i]; }
#endif
    ref_lf = &lf;
    len = ref_ber_variant(&in.v, &in.var, enc, sizeof(enc));
    ref_lf = 0;
#elif defined(SYN_UPER)
    len = ref_uper_unk(&in.v, &in.var, enc, sizeof(enc));
#else
    len = ref_oer_unk(&in.v, &in.var, enc, sizeof(enc));
#endif
    ASSUME(len <= VMAX);
    uint8_t *data = exact_copy(enc, len);
    TYPE_T *back = 0;
    asn_dec_rval_t dr = do_decode(&TYPE_DEF, (void **)&back, data, len);
    CHECK(dr.code == RC_OK, "a valid alternative encoding is accepted (RC_OK)");
    CHECK(dr.consumed == len, "the full length is consumed");
    if(dr.code == RC_OK && back) CHECK(tv_match(&in.v, back), "the decoded value is the encoded value");
#ifdef REENCODE_DER   /* C06: a value obtained from a non-canonical form has the canonical DER encoding */
    if(dr.code == RC_OK && back) {
        struct sink s; sink_init(&s);
        asn_enc_rval_t er = der_encode(&TYPE_DEF, back, sink_cb, &s);
        uint8_t rd[TV_MAXENC]; size_t rl = ref_der(&in.v, rd, sizeof(rd));
        CHECK(er.encoded >= 0 && s.len == rl, "DER of the decoded value has the reference length");
        if(s.len == rl) for(size_t i = 0; i < TV_MAXENC; i++) if(i < rl) CHECK(s.buf[i] == rd[i], "DER of the decoded value equals the reference DER");
    }
#endif
    if(back) ASN_STRUCT_FREE(TYPE_DEF, back);
    free(data);
    WITNESS();
}
