/* C19 by reduction: a codec call on one structure writes NO object of static storage duration (so calls on
 * distinct structures share only read-only memory: no data race, and every call returns what it returns alone),
 * plus sequential non-interference: X on s1, Y on s2, X on a copy of s1 again gives the same bytes.
 * verif_snapshot_all/verif_compare_all are regenerated from the goto binary's symbol table on every run. */
#include "verif.h"
#include "ref_enc.h"
#include DRV
#include "codec.h"
#include "exact_buf.h"
#include <constraints.h>
#ifndef NBYTES
#define NBYTES 4
#endif
struct inputs { struct tval v1, v2; uint8_t junk[NBYTES]; uint8_t jsize; };
#include "verif_in.h"
void verif_snapshot_all(void);
void verif_compare_all(void);
extern int verif_snapshot_count;
void harness(void) {
    VERIF_INPUTS();
    ASSUME(tv_valid(&in.v1) && tv_valid(&in.v2) && in.jsize <= NBYTES);
    CHECK(verif_snapshot_count > 0, "the snapshot covers at least one static object (harness sanity)");
    TYPE_T a, b; struct tv_store sa, sb;
    tv_build(&in.v1, &a, &sa); tv_build(&in.v2, &b, &sb);
    verif_snapshot_all();
    /* X: encode a */
    struct sink s1; sink_init(&s1);
    ssize_t n1 = do_encode(&TYPE_DEF, &a, sink_cb, &s1);
    /* Y: everything else on other structures: validate, encode, decode arbitrary bytes, decode valid bytes, free */
    (void)asn_check_constraints(&TYPE_DEF, &b, 0, 0);
    struct sink s2; sink_init(&s2);
    (void)do_encode(&TYPE_DEF, &b, sink_cb, &s2);
    uint8_t *d = exact_copy(in.junk, in.jsize);
    TYPE_T *g = 0;
    (void)do_decode(&TYPE_DEF, (void **)&g, d, in.jsize);
    if(g) ASN_STRUCT_FREE(TYPE_DEF, g);
    free(d);
    TYPE_T *back = 0;
    asn_dec_rval_t dr = do_decode(&TYPE_DEF, (void **)&back, s2.buf, s2.len <= SINK_MAX ? s2.len : 0);
    (void)dr;
    if(back) ASN_STRUCT_FREE(TYPE_DEF, back);
    /* X again on an identical structure */
    TYPE_T a2; struct tv_store sa2;
    tv_build(&in.v1, &a2, &sa2);
    struct sink s3; sink_init(&s3);
    ssize_t n3 = do_encode(&TYPE_DEF, &a2, sink_cb, &s3);
    verif_compare_all();
    CHECK(n1 == n3 && s1.len == s3.len, "same result for the same call before and after unrelated calls");
    if(s1.len == s3.len) for(size_t i = 0; i < TV_MAXENC; i++) if(i < s1.len) CHECK(s1.buf[i] == s3.buf[i], "same bytes before and after unrelated calls");
    WITNESS();
}
