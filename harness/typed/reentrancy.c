/* C19 by reduction: a codec call on one structure writes NO object of static storage duration (so calls on
 * distinct structures share only read-only memory: no data race, and every call returns what it returns alone).
 *   -DOPS_ENC : validate + encode            -DOPS_DEC : decode arbitrary octets, decode a valid encoding, free
 *   -DOPS_SEQ : sequential non-interference: encode s1, (validate/encode/decode on others), encode a copy of s1 again
 * verif_snapshot_all/verif_compare_all are regenerated from the goto binary's symbol table on every run. */
#include "verif.h"
#include "ref_enc.h"
#include DRV
#include "codec.h"
#include "exact_buf.h"
#include <constraints.h>
#ifndef NBYTES
#define NBYTES 4
#endif
struct inputs { struct tval v1, v2; uint8_t junk[NBYTES]; uint8_t jsize; };
#include "verif_in.h"
void verif_snapshot_all(void);
void verif_compare_all(void);
extern int verif_snapshot_count;
static size_t ref_enc_any(const struct tval *v, uint8_t *out, size_t cap) {
#if defined(SYN_DER)
    return ref_der(v, out, cap);
#elif defined(SYN_OER)
    return ref_oer(v, out, cap);
#else
    return ref_uper(v, out, cap);
#endif
}
void harness(void) {
    VERIF_INPUTS();
    ASSUME(tv_valid(&in.v1) && tv_valid(&in.v2) && in.jsize <= NBYTES);
    CHECK(verif_snapshot_count > 0, "the snapshot covers at least one static object (harness sanity)");
    TYPE_T a; struct tv_store sa;
    tv_build(&in.v1, &a, &sa);
    verif_snapshot_all();
#if defined(OPS_ENC)
    (void)asn_check_constraints(&TYPE_DEF, &a, 0, 0);
    struct sink s1; sink_init(&s1);
    (void)do_encode(&TYPE_DEF, &a, sink_cb, &s1);
#elif defined(OPS_DEC)
    uint8_t *d = exact_copy(in.junk, in.jsize);
    TYPE_T *g = 0;
    (void)do_decode(&TYPE_DEF, (void **)&g, d, in.jsize);
    if(g) ASN_STRUCT_FREE(TYPE_DEF, g);
    free(d);
    uint8_t enc[TV_MAXENC]; size_t len = ref_enc_any(&in.v2, enc, sizeof(enc));
    ASSUME(len <= TV_MAXENC);
    uint8_t *d2 = exact_copy(enc, len);
    TYPE_T *back = 0;
    (void)do_decode(&TYPE_DEF, (void **)&back, d2, len);
    if(back) ASN_STRUCT_FREE(TYPE_DEF, back);
    free(d2);
#else /* OPS_SEQ */
    struct sink s1; sink_init(&s1);
    ssize_t n1 = do_encode(&TYPE_DEF, &a, sink_cb, &s1);
    TYPE_T b; struct tv_store sb;
    tv_build(&in.v2, &b, &sb);
    (void)asn_check_constraints(&TYPE_DEF, &b, 0, 0);
    struct sink s2; sink_init(&s2);
    (void)do_encode(&TYPE_DEF, &b, sink_cb, &s2);
    TYPE_T a2; struct tv_store sa2;
    tv_build(&in.v1, &a2, &sa2);
    struct sink s3; sink_init(&s3);
    ssize_t n3 = do_encode(&TYPE_DEF, &a2, sink_cb, &s3);
    CHECK(n1 == n3 && s1.len == s3.len, "same result for the same call before and after unrelated calls");
    if(s1.len == s3.len) for(size_t i = 0; i < TV_MAXENC; i++) if(i < s1.len) CHECK(s1.buf[i] == s3.buf[i], "same bytes before and after unrelated calls");
#endif
    verif_compare_all();
    WITNESS();
}
