/* C01 (XER): xer_encode (BASIC and CANONICAL) then xer_decode returns RC_OK, consumes everything, same value. */
#include "verif.h"
#include "ref_enc.h"
#include DRV
#include <asn_application.h>
#include "exact_buf.h"
struct inputs { struct tval v; uint8_t canonical; };
#include "verif_in.h"
void harness(void) {
    VERIF_INPUTS();
    ASSUME(tv_valid(&in.v) && in.canonical <= 1);
    TYPE_T val; struct tv_store store;
    tv_build(&in.v, &val, &store);
    struct sink s; sink_init(&s);
    asn_enc_rval_t er = xer_encode(&TYPE_DEF, &val, in.canonical ? XER_F_CANONICAL : XER_F_BASIC, sink_cb, &s);
    CHECK(er.encoded >= 0 && (size_t)er.encoded == s.len, "XER encoding succeeds and reports the bytes delivered");
    CHECK(s.len <= 40, "text fits (harness sanity)");
    uint8_t *data = exact_copy(s.buf, s.len <= 40 ? s.len : 0);
    asn_codec_ctx_t ctx; memset(&ctx, 0, sizeof(ctx));
    TYPE_T *back = 0;
    asn_dec_rval_t dr = xer_decode(&ctx, &TYPE_DEF, (void **)&back, data, s.len);
    CHECK(dr.code == RC_OK, "decoding own XER returns RC_OK");
#ifdef STRICT_CONSUME
    CHECK(dr.consumed == s.len, "decoder consumes exactly the produced text");
#else
    /* BASIC-XER output ends with a newline that xer_decode leaves unconsumed (recorded as a known finding by the
     * STRICT_CONSUME variant); everything before it must be consumed */
    CHECK(dr.consumed == s.len || (!in.canonical && dr.consumed + 1 == s.len && s.buf[s.len - 1] == '\n'), "decoder consumes the produced text (up to the trailing newline of BASIC-XER)");
#endif
    if(dr.code == RC_OK && back) CHECK(tv_match(&in.v, back), "decoded structure denotes the same abstract value");
    if(back) ASN_STRUCT_FREE(TYPE_DEF, back);
    free(data);
    WITNESS();
}
