/* C01: encode -> decode returns RC_OK, consumes exactly what was produced, yields the same abstract value,
 * compare_struct == 0; with -DREENCODE also: DER re-encoding of the decoded structure equals reference DER. */
#include "verif.h"
#include "ref_enc.h"
#include DRV
#include "codec.h"
struct inputs { struct tval v; };
#include "verif_in.h"
void harness(void) {
    VERIF_INPUTS();
    ASSUME(tv_valid(&in.v));
    TYPE_T val; struct tv_store store;
    tv_build(&in.v, &val, &store);
    struct sink s; sink_init(&s);
    ssize_t n = do_encode(&TYPE_DEF, &val, sink_cb, &s);
    CHECK(n >= 0 && (size_t)n == s.len, "encoding succeeds and reports the bytes delivered");
    CHECK(s.len <= SINK_MAX, "encoding fits the sink (harness sanity)");
    TYPE_T *back = 0;
    asn_dec_rval_t dr = do_decode(&TYPE_DEF, (void **)&back, s.buf, s.len);
    CHECK(dr.code == RC_OK, "decoding own output returns RC_OK");
    CHECK(dr.consumed == s.len, "decoder consumes exactly the produced bytes");
    if(dr.code == RC_OK && back) {
        CHECK(tv_match(&in.v, back), "decoded structure denotes the same abstract value");
        CHECK(TYPE_DEF.op->compare_struct(&TYPE_DEF, &val, back) == 0, "compare_struct == 0");
#ifdef REENCODE
        struct sink s2; sink_init(&s2);
        asn_enc_rval_t e2 = der_encode(&TYPE_DEF, back, sink_cb, &s2);
        uint8_t rd[TV_MAXENC]; size_t rdl = ref_der(&in.v, rd, sizeof(rd));
        CHECK(e2.encoded >= 0 && s2.len == rdl, "DER re-encoding of the decoded value has the reference length");
        if(s2.len == rdl) for(size_t i = 0; i < TV_MAXENC; i++) if(i < rdl) CHECK(s2.buf[i] == rd[i], "DER re-encoding equals reference DER");
#endif
    }
    WITNESS();
}
