/* C04 (and C14 h3 with -DALLOC_FAIL): decode N arbitrary octets (exact-size heap object, symbolic size):
 * terminates (unwinding assertions), returns OK/WMORE/FAIL with consumed <= size, no memory error (CBMC checks),
 * and the structure left behind can be validated, re-encoded and freed without leak. */
#include "verif.h"
#include "ref_enc.h"
#include DRV
#include "codec.h"
#include "exact_buf.h"
#include <constraints.h>
#ifndef NBYTES
#define NBYTES 5
#endif
struct inputs { uint8_t buf[NBYTES]; uint8_t size; int8_t alloc_fail_at; };
#include "verif_in.h"
#ifdef ALLOC_FAIL
extern int verif_alloc_fail_at, verif_alloc_count;
#endif
#ifdef HEAP_BOUND
extern size_t verif_alloc_max_request, verif_alloc_total;
#endif
void harness(void) {
    VERIF_INPUTS();
    ASSUME(in.size <= NBYTES);
#ifdef FIXED_INPUT
    uint8_t *data = in.buf;
#else
    uint8_t *data = exact_copy(in.buf, in.size);     /* exact-size object: over-reads are bounds violations */
#endif
#ifdef ALLOC_FAIL
    ASSUME(in.alloc_fail_at >= -1 && in.alloc_fail_at <= 8);
    verif_alloc_fail_at = in.alloc_fail_at; verif_alloc_count = 0;
#endif
    TYPE_T *v = 0;
    asn_dec_rval_t dr = do_decode(&TYPE_DEF, (void **)&v, data, in.size);
    CHECK(dr.code == RC_OK || dr.code == RC_WMORE || dr.code == RC_FAIL, "decoder returns OK, WMORE or FAIL");
    CHECK(dr.consumed <= in.size, "consumed <= size");
#ifdef ALLOC_FAIL
    verif_alloc_fail_at = -1;
#endif
#ifdef HEAP_BOUND
    /* C15 (heap clause): what the decoder asked the allocator for is bounded by the input it was given,
     * whatever lengths/counts the input bytes claim */
    CHECK(verif_alloc_max_request <= (size_t)(HEAP_A) * in.size + (HEAP_B), "largest single allocation request <= A*size + B");
    CHECK(verif_alloc_total <= (size_t)(HEAP_TA) * in.size + (HEAP_TB), "total allocation requests <= TA*size + TB");
#endif
    if(v) {
#ifdef POSTOPS
        if(dr.code == RC_OK) {
            int cr = asn_check_constraints(&TYPE_DEF, v, 0, 0);
            CHECK(cr == 0 || cr == -1, "validation terminates with 0 or -1");
            struct sink s; sink_init(&s);
            asn_enc_rval_t er = der_encode(&TYPE_DEF, v, sink_cb, &s);
            CHECK(er.encoded == -1 || (size_t)er.encoded == s.len, "re-encoding accounts for its bytes");
        }
#endif
        ASN_STRUCT_FREE(TYPE_DEF, v);
    }
#ifndef FIXED_INPUT
    free(data);
#endif
    WITNESS();
}
