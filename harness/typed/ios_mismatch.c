/* C18 (c): BER input whose identifier has no row in the object set, or whose open-type payload is of another
 * row's type, makes the decoder fail cleanly: RC_FAIL (never RC_OK), no memory error, nothing leaked. */
#include "verif.h"
#include "ref_enc.h"
#include DRV
#include "codec.h"
#include "exact_buf.h"
struct inputs { int64_t id; uint8_t ptype; uint8_t pval; };
#include "verif_in.h"
void harness(void) {
    VERIF_INPUTS();
    ASSUME(in.ptype < 3);
    ASSUME(in.id >= -300 && in.id <= 300);
    int row = in.id == 1 ? 0 : in.id == 2 ? 1 : in.id == 7 ? 2 : -1;
    ASSUME(row != in.ptype);                    /* identifier unknown, or payload type of another row */
    uint8_t inner[8]; struct rbuf in_ = { inner, 0, sizeof(inner) };
    if(in.ptype == 0) der_bool_tagged(&in_, CL_UNIV, 1, in.pval & 1);
    else if(in.ptype == 1) der_int_tagged(&in_, CL_UNIV, 2, in.pval);
    else der_octets_tagged(&in_, CL_UNIV, 4, &in.pval, 1);
    uint8_t body[20]; struct rbuf b = { body, 0, sizeof(body) };
    der_int_tagged(&b, CL_CTX, 0, in.id);
    x_constructed(&b, CL_CTX, 1, inner, in_.n);
    uint8_t enc[24]; struct rbuf o = { enc, 0, sizeof(enc) };
    x_constructed(&o, CL_UNIV, 16, body, b.n);
    uint8_t *data = exact_copy(enc, o.n);
    TYPE_T *v = 0;
    asn_dec_rval_t dr = do_decode(&TYPE_DEF, (void **)&v, data, o.n);
    CHECK(dr.code == RC_FAIL, "identifier/payload mismatch is rejected with RC_FAIL");
    CHECK(dr.consumed <= o.n, "consumed <= size");
    if(v) ASN_STRUCT_FREE(TYPE_DEF, v);
    free(data);
    WITNESS();
}
