import sys, os
sys.path.insert(0, os.path.join(VERIF, 'harness'))
from typed_common import *
HARNESSES = []
ALT = {'T_Seq': 'DEFAULT member stored explicitly vs absent', 'T_SetOf': 'SET OF elements swapped', 'T_Bits': 'noise in the unused bits',
       'T_IntW': 'INTEGER_t with 0..2 redundant leading sign octets'}
for t, what in ALT.items():
    for k in ('der', 'oer', 'uper'):
        if k == 'uper' and t in ('T_SetOf', 'T_Bits', 'T_IntW'):
            continue    # value-dependent UPER layouts: see typed_common.UPER_TOO_COSTLY
        h = typed(H, 'canon_%s_%s' % (t, k), 'typed/canon_repr.c', t, k, functions=['%s encoder of %s, compare_struct' % (k, t)],
                  inputs='value of %s; representation change: %s' % (t, what))
        if t == 'T_IntW':
            h.gen = dict(h.gen, opts=h.gen['opts'] + ['-fwide-types'])
        HARNESSES.append(h)
# value obtained by decoding a non-canonical BER form re-encodes to the reference DER
for t in ('T_Seq', 'T_Set', 'T_Oct'):
    HARNESSES.append(typed(H, 'canon_fromvariant_%s' % t, 'typed/dec_variants.c', t, 'der', defines=['-DREENCODE_DER'],
                           functions=['BER decoder then DER encoder of %s' % t], inputs='value + alternative BER encoding (see C03)'))
OUTSIDE = ['SET OF of more than 2 elements or of constructed elements', 'CANONICAL-XER', 'BASIC-XER (not canonical)']
