import sys, os
sys.path.insert(0, os.path.join(VERIF, 'harness'))
from typed_common import *
HARNESSES = []
TY = ['T_Int8', 'T_IntR', 'T_Int16', 'T_Int17', 'T_IntOne', 'T_IntSemi', 'T_IntNeg', 'T_IntU32', 'T_Seq', 'T_SeqOf', 'T_SetOf', 'T_Cho', 'T_Oct', 'T_OctF',
      'T_IA5', 'T_Vis', 'T_Set', 'E_Uni', 'E_Int', 'E_Ser', 'E_Exc', 'E_Gap', 'E_Vals', 'E_Ref', 'E_MinU', 'E_SemiSer', 'E_P257', 'E_Neg']
Q = ['T_Int8', 'T_IntR', 'T_Seq', 'T_Set', 'T_SeqOf', 'T_Oct', 'T_IA5', 'T_Vis', 'T_Set', 'E_Uni', 'E_Exc', 'E_Vals', 'E_Gap', 'T_Cho', 'T_IntU32']
for t in TY:
    HARNESSES.append(typed(H, 'ck_%s' % t, 'typed/constraints.c', t, 'der', models=['printf_nondet'], tiers=('quick', 'thorough') if t in Q else ('thorough',),
                           exclude=r'xer|_print|random_fill|_oer|_uper|_aper|_ber|_der',
                           functions=['asn_check_constraints, generated %s_constraint' % t],
                           inputs='structurally well-formed value of %s (constraint-violating values included), error buffer size 0..24, arbitrary vsnprintf result' % t))
ASSUMPTIONS = ['vsnprintf is modelled by its C99 contract only (arbitrary return value)']
OUTSIDE = ['extensible constraints (excluded by the property)', 'strings longer than 3', 'WITH COMPONENTS / PATTERN (documented as unchecked by asn1c)']
