import sys, os
sys.path.insert(0, os.path.join(VERIF, 'harness'))
from typed_common import *
HARNESSES = []
# (type, syntax, A, B, TA, TB): largest request <= A*size+B, total <= TA*size+TB, constants read off the decoders
B = [('T_OctU', 'der', 2, 64, 6, 256), ('T_OctU', 'oer', 2, 64, 6, 256), ('T_Oct', 'der', 2, 64, 6, 256),
     ('T_SeqOf', 'der', 2, 96, 12, 512), ('T_SeqOf', 'oer', 2, 96, 12, 512), ('T_SetOf', 'oer', 2, 96, 12, 512),
     ('T_Bits', 'der', 2, 64, 6, 256), ('T_IntW', 'der', 2, 64, 6, 256), ('T_IntW', 'oer', 2, 64, 6, 256), ('T_SeqX', 'oer', 2, 96, 12, 512),
     ('T_Seq', 'der', 2, 96, 12, 512)]
Q = {('T_OctU', 'der'), ('T_OctU', 'oer'), ('T_SeqOf', 'oer'), ('T_IntW', 'oer'), ('T_SeqOf', 'der'), ('T_Bits', 'der')}
for t, k, a, b, ta, tb in B:
    h = typed(H, 'heap_%s_%s' % (t, k), 'typed/dec_arbitrary.c', t, k, alloc=True, leak=True,
              defines=['-DNBYTES=6', '-DALLOC_FAIL', '-DHEAP_BOUND', '-DHEAP_A=%d' % a, '-DHEAP_B=%d' % b, '-DHEAP_TA=%d' % ta, '-DHEAP_TB=%d' % tb],
              tiers=('quick', 'thorough') if (t, k) in Q else ('thorough',),
              functions=['%s decoder of %s with allocation accounting' % (k, t)],
              inputs='6 arbitrary octets (length prefixes may claim up to 2^62 octets / 2^32 elements), symbolic size',
              bounds='largest request <= %d*size+%d, total requests <= %d*size+%d' % (a, b, ta, tb))
    if t == 'T_IntW':
        h.gen = dict(h.gen, opts=h.gen['opts'] + ['-fwide-types'])
    HARNESSES.append(h)
OUTSIDE = ['the stack clause (ASN__STACK_OVERFLOW_CHECK compares addresses of unrelated stack objects, which CBMC cannot model; 10^5-deep nesting is beyond any unwinding)',
           'zero-width-element guards that need > 200 loop iterations', 'inputs longer than 6 octets', 'UPER']
