/*
 * C11 (fixer unit): tag distinctness through TYPE REFERENCES to one shared CHOICE definition.
 * Module: Ch ::= CHOICE { a <tag?> INTEGER, b <tag?> BOOLEAN };  T ::= <SEQUENCE|SET|CHOICE> { x <tag?> Ch [OPTIONAL], y <tag?> (Ch | INTEGER) }
 * asn1f_lookup_symbol is replaced by a stub that resolves the reference "Ch" to the definition (the module symbol
 * tables are not built); everything else is the real asn1fix_constr.c / asn1fix_tags.c.
 */
#include "verif.h"
#include <asn1fix_internal.h>
struct comp { uint8_t tclass; uint8_t tnum; };
struct inputs { uint8_t kind; uint8_t x_optional; uint8_t y_is_ref; struct comp x, y, a, b; };
#include "verif_in.h"
static int fatal_count;
static void eh_stub(int severity, const char *fmt, ...) { (void)fmt; if(severity) fatal_count++; }
static const int CLASSES[3] = { TC_NOCLASS, TC_CONTEXT_SPECIFIC, TC_APPLICATION };
static asn1p_expr_t P, X, Y, CH, A, B;
static asn1p_module_t MOD;
static asn1p_ref_t REF;
static char nP[] = "T", nx[] = "x", ny[] = "y", nc[] = "Ch", na[] = "a", nb[] = "b", nm[] = "M", fn[] = "m.asn1";

#ifdef VERIF_REPLAY   /* native replay: the real library is linked; the stubs are interposed with ld --wrap */
#define asn1f_lookup_symbol __wrap_asn1f_lookup_symbol
#define asn1f_find_terminal_type __wrap_asn1f_find_terminal_type
#endif
asn1p_expr_t *asn1f_lookup_symbol(arg_t *arg, asn1p_expr_t *rhs_pspecs, const asn1p_ref_t *ref) {
    (void)arg; (void)rhs_pspecs;
    return ref == &REF ? &CH : 0;
}
asn1p_expr_t *asn1f_find_terminal_type(arg_t *arg, asn1p_expr_t *expr) {
    (void)arg;
    return expr->expr_type == A1TC_REFERENCE ? &CH : expr;
}
static void mk(asn1p_expr_t *e, char *name, int meta, asn1p_expr_type_e t, const struct comp *c, asn1p_expr_t *parent) {
    memset(e, 0, sizeof(*e));
    e->Identifier = name; e->meta_type = meta; e->module = &MOD; e->_lineno = 1; e->expr_type = t;
    if(c) { e->tag.tag_class = CLASSES[c->tclass]; e->tag.tag_value = c->tnum; e->tag.tag_mode = TM_DEFAULT; }
    e->parent_expr = parent;
    TQ_INIT(&(e->members));
    if(parent) TQ_ADD(&(parent->members), e, next);
}
static int cls_of(const struct comp *c, int univ) { (void)univ; return c->tclass ? CLASSES[c->tclass] : TC_UNIVERSAL; }
static int num_of(const struct comp *c, int univ) { return c->tclass ? c->tnum : univ; }
/* possible outermost tags of a component that is Ch (tagged or not): up to two (class, number) pairs */
static int tags_of_ch(const struct comp *c, int cls[2], int num[2]) {
    if(c->tclass) { cls[0] = CLASSES[c->tclass]; num[0] = c->tnum; return 1; }
    cls[0] = cls_of(&in.a, 2); num[0] = num_of(&in.a, 2);
    cls[1] = cls_of(&in.b, 1); num[1] = num_of(&in.b, 1);
    return 2;
}
void harness(void) {
    VERIF_INPUTS();
    ASSUME(in.kind <= 2 && in.x_optional <= 1 && in.y_is_ref <= 1);
    const struct comp *cs[4] = { &in.x, &in.y, &in.a, &in.b };
    for(int i = 0; i < 4; i++) ASSUME(cs[i]->tclass <= 2 && cs[i]->tnum <= 3);
    ASSUME(!(cls_of(&in.a, 2) == cls_of(&in.b, 1) && num_of(&in.a, 2) == num_of(&in.b, 1)));   /* Ch itself is well-formed */
    memset(&MOD, 0, sizeof(MOD)); MOD.ModuleName = nm; MOD.source_file_name = fn;
    memset(&REF, 0, sizeof(REF));
    mk(&CH, nc, AMT_TYPE, ASN_CONSTR_CHOICE, 0, 0);
    mk(&A, na, AMT_TYPE, ASN_BASIC_INTEGER, &in.a, &CH);
    mk(&B, nb, AMT_TYPE, ASN_BASIC_BOOLEAN, &in.b, &CH);
    mk(&P, nP, AMT_TYPE, in.kind == 0 ? ASN_CONSTR_SEQUENCE : in.kind == 1 ? ASN_CONSTR_SET : ASN_CONSTR_CHOICE, 0, 0);
    mk(&X, nx, AMT_TYPEREF, A1TC_REFERENCE, &in.x, &P); X.reference = &REF;
    if(in.y_is_ref) { mk(&Y, ny, AMT_TYPEREF, A1TC_REFERENCE, &in.y, &P); Y.reference = &REF; }
    else mk(&Y, ny, AMT_TYPE, ASN_BASIC_INTEGER, &in.y, &P);
    X.marker.flags = in.x_optional ? EM_OPTIONAL : EM_NOMARK;
    arg_t arg; memset(&arg, 0, sizeof(arg));
    arg.expr = &P; arg.mod = &MOD; arg.eh = eh_stub; arg.debug = 0;
    fatal_count = 0;
    int r = asn1f_check_constr_tags_distinct(&arg);
    int xc[2], xn[2], yc[2], yn[2];
    int nxp = tags_of_ch(&in.x, xc, xn), nyp;
    if(in.y_is_ref) nyp = tags_of_ch(&in.y, yc, yn);
    else { yc[0] = cls_of(&in.y, 2); yn[0] = num_of(&in.y, 2); nyp = 1; }
    int hit = 0;
    for(int i = 0; i < 2; i++) for(int j = 0; j < 2; j++) if(i < nxp && j < nyp && xc[i] == yc[j] && xn[i] == yn[j]) hit = 1;
    int rule_applies = in.kind != 0 || in.x_optional;
    CHECK((r == -1) == (hit && rule_applies), "collision reported exactly when x and y share a possible outermost tag and the rule applies");
    WITNESS();
}
