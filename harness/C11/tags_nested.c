/*
 * C11 (fixer unit): tag distinctness looking THROUGH an untagged CHOICE, and automatic tagging.
 * Parent (SEQUENCE/SET/CHOICE) = { m0 <untagged or tagged CHOICE { x T1, y T2 }> [OPTIONAL], m1 T3 }.
 *  -DMODE_DISTINCT: asn1f_check_constr_tags_distinct == -1 exactly when m1's outermost tag equals a possible
 *                   outermost tag of m0 (the tags of x and y when m0 is untagged; m0's own tag otherwise)
 *                   and the X.680 rule for the parent kind applies to the pair.
 *  -DMODE_AUTOTAG : in an AUTOMATIC TAGS module, asn1f_fix_constr_tag + asn1f_fix_constr_autotag give the components
 *                   [0] and [1], EXPLICIT exactly for the CHOICE-typed component, when no component was tagged by
 *                   hand; hand-tagged lists are left alone; the result passes the distinctness check.
 */
#include "verif.h"
#include <asn1fix_internal.h>
struct comp { uint8_t type; uint8_t tclass; uint8_t tnum; };
struct inputs { uint8_t kind; uint8_t m0_optional; struct comp m0, x, y, m1; };
#include "verif_in.h"

static int fatal_count;
static void eh_stub(int severity, const char *fmt, ...) { (void)fmt; if(severity) fatal_count++; }
static const asn1p_expr_type_e TYPES[3] = { ASN_BASIC_INTEGER, ASN_BASIC_BOOLEAN, ASN_BASIC_OCTET_STRING };
static const int UNIV[3] = { 2, 1, 4 };
static const int CLASSES[3] = { TC_NOCLASS, TC_CONTEXT_SPECIFIC, TC_APPLICATION };
static asn1p_expr_t P, M0, X, Y, M1;
static asn1p_module_t MOD;
static char nP[] = "T", n0[] = "m0", nx[] = "x", ny[] = "y", n1[] = "m1", nm[] = "M", fn[] = "m.asn1";

static void mk(asn1p_expr_t *e, char *name, asn1p_expr_type_e t, const struct comp *c, asn1p_expr_t *parent) {
    memset(e, 0, sizeof(*e));
    e->Identifier = name; e->meta_type = AMT_TYPE; e->module = &MOD; e->_lineno = 1; e->expr_type = t;
    if(c) { e->tag.tag_class = CLASSES[c->tclass]; e->tag.tag_value = c->tnum; e->tag.tag_mode = TM_DEFAULT; }
    e->parent_expr = parent;
    TQ_INIT(&(e->members));
    if(parent) TQ_ADD(&(parent->members), e, next);
}
static int cls_of(const struct comp *c) { return c->tclass ? CLASSES[c->tclass] : TC_UNIVERSAL; }
static int num_of(const struct comp *c) { return c->tclass ? c->tnum : UNIV[c->type]; }

void harness(void) {
    VERIF_INPUTS();
    ASSUME(in.kind <= 2 && in.m0_optional <= 1);
    const struct comp *cs[4] = { &in.m0, &in.x, &in.y, &in.m1 };
    for(int i = 0; i < 4; i++) ASSUME(cs[i]->type <= 2 && cs[i]->tclass <= 2 && cs[i]->tnum <= 3);
    /* the alternatives of the inner CHOICE must themselves be distinct (that list is checked on its own) */
    ASSUME(!(cls_of(&in.x) == cls_of(&in.y) && num_of(&in.x) == num_of(&in.y)));
    memset(&MOD, 0, sizeof(MOD)); MOD.ModuleName = nm; MOD.source_file_name = fn;
    mk(&P, nP, in.kind == 0 ? ASN_CONSTR_SEQUENCE : in.kind == 1 ? ASN_CONSTR_SET : ASN_CONSTR_CHOICE, 0, 0);
    mk(&M0, n0, ASN_CONSTR_CHOICE, &in.m0, &P);
    mk(&X, nx, TYPES[in.x.type], &in.x, &M0);
    mk(&Y, ny, TYPES[in.y.type], &in.y, &M0);
    mk(&M1, n1, TYPES[in.m1.type], &in.m1, &P);
    M0.marker.flags = in.m0_optional ? EM_OPTIONAL : EM_NOMARK;
    arg_t arg; memset(&arg, 0, sizeof(arg));
    arg.expr = &P; arg.mod = &MOD; arg.eh = eh_stub; arg.debug = 0;
    fatal_count = 0;
#ifdef MODE_DISTINCT
    int r = asn1f_check_constr_tags_distinct(&arg);
    int c1 = cls_of(&in.m1), n1v = num_of(&in.m1);
    int hit;
    if(in.m0.tclass) hit = (CLASSES[in.m0.tclass] == c1 && in.m0.tnum == n1v);       /* m0 tagged: its own tag counts */
    else hit = (cls_of(&in.x) == c1 && num_of(&in.x) == n1v) || (cls_of(&in.y) == c1 && num_of(&in.y) == n1v);
    int rule_applies = in.kind != 0 || in.m0_optional;         /* SEQUENCE: only an OPTIONAL m0 must differ from m1 */
    CHECK((r == -1) == (hit && rule_applies), "collision reported exactly when m1's tag is a possible outermost tag of m0 and the rule applies");
    CHECK((r == -1) == (fatal_count > 0), "diagnostic exactly on failure");
#else
    MOD.module_flags = MSF_AUTOMATIC_TAGS;
    int r1 = asn1f_fix_constr_tag(&arg, 0);
    int r2 = asn1f_fix_constr_autotag(&arg);
    int hand = in.m0.tclass != 0 || in.m1.tclass != 0;
    CHECK(r2 == 0, "auto-tagging itself never fails");
    if(!hand) {
        CHECK(r1 == 0 && P.auto_tags_OK == 1, "automatic tagging applies when no component is tagged by hand");
        CHECK(M0.tag.tag_class == TC_CONTEXT_SPECIFIC && M0.tag.tag_value == 0 && M0.tag.tag_mode == TM_EXPLICIT, "m0 (a CHOICE) gets [0] EXPLICIT");
        CHECK(M1.tag.tag_class == TC_CONTEXT_SPECIFIC && M1.tag.tag_value == 1 && M1.tag.tag_mode == TM_IMPLICIT, "m1 gets [1] IMPLICIT");
        CHECK(asn1f_check_constr_tags_distinct(&arg) == 0, "automatically tagged components are distinct");
    } else {
        CHECK(P.auto_tags_OK == 0, "a hand-tagged component list is not auto-tagged (X.680 28.5)");
        CHECK(M1.tag.tag_class == CLASSES[in.m1.tclass] && M1.tag.tag_value == in.m1.tnum, "hand-written tags are kept");
        if(in.m0.tclass) CHECK(M0.tag.tag_mode == TM_EXPLICIT, "a tagged CHOICE component is EXPLICIT even in an IMPLICIT/AUTOMATIC module");
    }
#endif
    WITNESS();
}
