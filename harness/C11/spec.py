import glob, os
FIX = []
for d in ('libasn1fix', 'libasn1parser', 'libasn1common'):
    for f in sorted(glob.glob(os.path.join('/repo', d, '*.c'))):
        b = os.path.basename(f)
        if b.startswith('check_') or b.startswith('check-') or b in ('asn1parser.c', 'asn1p_l.c', 'asn1p_y.c'):
            continue
        FIX.append(d + '/' + b)
INC = ['libasn1fix', 'libasn1parser', 'libasn1common', 'libasn1print']
HARNESSES = [
    H('tags_distinct_3', 'C11/tags_distinct.c', sources=FIX, incdirs=INC, models=['quiet', 'realloc'],
      functions=['asn1f_check_constr_tags_distinct', '_asn1f_compare_tags', 'asn1f_fetch_outmost_tag', 'asn1f_fetch_tags_impl'],
      inputs='parent kind (SEQUENCE/SET/CHOICE); 3 components: built-in type, tag class (none/context/application), tag number 0..3, OPTIONAL flag - all symbolic',
      bounds='3 components of built-in types, no type references, no nested CHOICE', timeout=1200,
      native_extra=['libasn1parser/asn1parser.c', 'libasn1parser/asn1p_l.c', 'libasn1parser/asn1p_y.c']),
    H('tags_through_choice', 'C11/tags_nested.c', sources=FIX, incdirs=INC, models=['quiet', 'realloc'], defines=['-DMODE_DISTINCT'],
      functions=['asn1f_check_constr_tags_distinct', '_asn1f_compare_tags (CHOICE recursion)', 'asn1f_fetch_outmost_tag'],
      inputs='parent kind; m0 = CHOICE {x, y} tagged or not, OPTIONAL or not; m1; all types, tag classes and numbers symbolic',
      bounds='one level of CHOICE nesting, two alternatives', timeout=1200,
      native_extra=['libasn1parser/asn1parser.c', 'libasn1parser/asn1p_l.c', 'libasn1parser/asn1p_y.c']),
    H('autotag', 'C11/tags_nested.c', sources=FIX, incdirs=INC, models=['quiet', 'realloc'], defines=['-DMODE_AUTOTAG'],
      functions=['asn1f_fix_constr_tag', 'asn1f_fix_constr_autotag', '_asn1f_check_if_tag_must_be_explicit', 'asn1f_check_constr_tags_distinct'],
      inputs='same tree in an AUTOMATIC TAGS module; hand-written tags symbolic (present or not)', bounds='two components', timeout=1800, maxdeepen=5000, tiers=('thorough',),
      native_extra=['libasn1parser/asn1parser.c', 'libasn1parser/asn1p_l.c', 'libasn1parser/asn1p_y.c']),
    H('unique_ids', 'C11/unique_ids.c', sources=FIX, incdirs=INC, models=['quiet', 'realloc'],
      functions=['asn1f_check_unique_expr', 'asn1f_check_unique_expr_child'], inputs='3 component identifiers of 1..2 symbolic lower-case characters',
      bounds='3 components', native_extra=['libasn1parser/asn1parser.c', 'libasn1parser/asn1p_l.c', 'libasn1parser/asn1p_y.c']),
    H('tags_shared_choice', 'C11/tags_shared.c', sources=[f for f in FIX if not f.endswith('asn1fix_retrieve.c')], incdirs=INC, models=['quiet', 'realloc'],
      functions=['asn1f_check_constr_tags_distinct', '_asn1f_compare_tags (type references, shared CHOICE)', 'asn1f_fetch_tags_impl (AMT_TYPEREF)'],
      inputs='parent kind; x: reference to Ch (tagged or not, OPTIONAL or not); y: reference to the same Ch or INTEGER; tags of x, y and of the alternatives of Ch symbolic',
      bounds='one shared CHOICE definition with two alternatives', timeout=1200,
      native_extra=['libasn1fix/asn1fix_retrieve.c', 'libasn1parser/asn1parser.c', 'libasn1parser/asn1p_l.c', 'libasn1parser/asn1p_y.c'],
      native_ldflags=['-Wl,--wrap=asn1f_lookup_symbol', '-Wl,--wrap=asn1f_find_terminal_type'],
      note='asn1f_lookup_symbol / asn1f_find_terminal_type are stubs resolving the one reference (interposed with ld --wrap in the native replay)'),
]
ASSUMPTIONS = ['diagnostics go to a counting stub', 'the AST is built directly from asn1p_expr_t objects (parser not involved)']
OUTSIDE = ['everything else in C11: exit status and absence of output files (whole-program I/O), parser acceptance, auto-tagging, duplicate identifiers, enumerations, dangling references, type references and nested untagged CHOICE']
