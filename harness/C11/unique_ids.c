/* C11 (fixer unit): asn1f_check_unique_expr reports -1 exactly when two components of a constructed type carry the
 * same identifier (3 components, identifiers of 1..2 symbolic characters). */
#include "verif.h"
#include <asn1fix_internal.h>
struct inputs { char id[3][3]; uint8_t kind; };
#include "verif_in.h"
static int fatal_count;
static void eh_stub(int severity, const char *fmt, ...) { (void)fmt; if(severity) fatal_count++; }
static asn1p_expr_t P, M[3];
static asn1p_module_t MOD;
static char nP[] = "T", nm[] = "M", fn[] = "m.asn1";
static int same(const char *a, const char *b) { return a[0] == b[0] && (a[0] == 0 || (a[1] == b[1])); }
void harness(void) {
    VERIF_INPUTS();
    ASSUME(in.kind <= 2);
    for(int i = 0; i < 3; i++) {
        ASSUME(in.id[i][0] >= 'a' && in.id[i][0] <= 'z');
        ASSUME(in.id[i][1] == 0 || (in.id[i][1] >= 'a' && in.id[i][1] <= 'z'));
        in.id[i][2] = 0;
    }
    memset(&MOD, 0, sizeof(MOD)); MOD.ModuleName = nm; MOD.source_file_name = fn;
    memset(&P, 0, sizeof(P)); P.Identifier = nP; P.meta_type = AMT_TYPE; P.module = &MOD;
    P.expr_type = in.kind == 0 ? ASN_CONSTR_SEQUENCE : in.kind == 1 ? ASN_CONSTR_SET : ASN_CONSTR_CHOICE;
    TQ_INIT(&(P.members));
    for(int i = 0; i < 3; i++) {
        memset(&M[i], 0, sizeof(M[i]));
        M[i].Identifier = in.id[i]; M[i].meta_type = AMT_TYPE; M[i].expr_type = ASN_BASIC_INTEGER; M[i].module = &MOD; M[i]._lineno = 2 + i;
        TQ_INIT(&(M[i].members));
        TQ_ADD(&(P.members), &M[i], next);
    }
    arg_t arg; memset(&arg, 0, sizeof(arg));
    arg.expr = &P; arg.mod = &MOD; arg.eh = eh_stub; arg.debug = 0;
    fatal_count = 0;
    int r = asn1f_check_unique_expr(&arg);
    int dup = same(in.id[0], in.id[1]) || same(in.id[0], in.id[2]) || same(in.id[1], in.id[2]);
    CHECK((r == -1) == dup, "rejects exactly the component lists with a repeated identifier");
    CHECK(r == 0 || r == -1, "returns 0 or -1");
    CHECK((r == -1) == (fatal_count > 0), "diagnostic exactly on failure");
    WITNESS();
}
