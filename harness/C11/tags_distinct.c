/*
 * C11 (fixer unit): asn1f_check_constr_tags_distinct() of libasn1fix/asn1fix_constr.c on a SEQUENCE, SET or CHOICE
 * with three components whose explicit tags (class, number), built-in types and OPTIONAL markers are SYMBOLIC,
 * against an independent implementation of the X.680 distinctness rules (24.5-24.6, 26.3, 28.3):
 * the checker reports -1 exactly when the rules are violated.  The AST is built directly (no parser, no heap).
 */
#include "verif.h"
#include <asn1fix_internal.h>

struct comp { uint8_t type; uint8_t tclass; uint8_t tnum; uint8_t optional; };
struct inputs { uint8_t kind; struct comp c[3]; };
#include "verif_in.h"

static int fatal_count;
static void eh_stub(int severity, const char *fmt, ...) { (void)fmt; if(severity) fatal_count++; }

static const asn1p_expr_type_e TYPES[3] = { ASN_BASIC_INTEGER, ASN_BASIC_BOOLEAN, ASN_BASIC_OCTET_STRING };
static const int UNIV[3] = { 2, 1, 4 };
static const int CLASSES[3] = { TC_NOCLASS, TC_CONTEXT_SPECIFIC, TC_APPLICATION };

static asn1p_expr_t P, M[3];
static asn1p_module_t MOD;
static char n0[] = "a", n1[] = "b", n2[] = "c", np[] = "T", nm[] = "M", fn[] = "m.asn1";

void harness(void) {
    VERIF_INPUTS();
    ASSUME(in.kind <= 2);
    for(int i = 0; i < 3; i++) ASSUME(in.c[i].type <= 2 && in.c[i].tclass <= 2 && in.c[i].tnum <= 3 && in.c[i].optional <= 1);
    memset(&P, 0, sizeof(P)); memset(M, 0, sizeof(M)); memset(&MOD, 0, sizeof(MOD));
    MOD.ModuleName = nm; MOD.source_file_name = fn;
    P.Identifier = np; P.meta_type = AMT_TYPE; P.module = &MOD; P._lineno = 1;
    P.expr_type = in.kind == 0 ? ASN_CONSTR_SEQUENCE : in.kind == 1 ? ASN_CONSTR_SET : ASN_CONSTR_CHOICE;
    TQ_INIT(&(P.members));
    char *names[3] = { n0, n1, n2 };
    for(int i = 0; i < 3; i++) {
        M[i].Identifier = names[i]; M[i].meta_type = AMT_TYPE; M[i].module = &MOD; M[i]._lineno = 2 + i;
        M[i].expr_type = TYPES[in.c[i].type];
        M[i].tag.tag_class = CLASSES[in.c[i].tclass];
        M[i].tag.tag_value = in.c[i].tnum;
        M[i].tag.tag_mode = TM_DEFAULT;
        M[i].marker.flags = in.c[i].optional ? EM_OPTIONAL : EM_NOMARK;
        M[i].parent_expr = &P;
        TQ_INIT(&(M[i].members));
        TQ_ADD(&(P.members), &M[i], next);
    }
    arg_t arg; memset(&arg, 0, sizeof(arg));
    arg.expr = &P; arg.mod = &MOD; arg.eh = eh_stub; arg.debug = 0;
    fatal_count = 0;
    int r = asn1f_check_constr_tags_distinct(&arg);

    /* oracle: outermost tag of each component, then the distinctness rule of the parent kind */
    int cls[3], num[3];
    for(int i = 0; i < 3; i++) {
        if(in.c[i].tclass == 0) { cls[i] = TC_UNIVERSAL; num[i] = UNIV[in.c[i].type]; }
        else { cls[i] = CLASSES[in.c[i].tclass]; num[i] = in.c[i].tnum; }
    }
#define SAME(i, j) (cls[i] == cls[j] && num[i] == num[j])
    int collide = 0;
    if(in.kind != 0) collide = SAME(0, 1) || SAME(0, 2) || SAME(1, 2);   /* SET, CHOICE: all pairwise distinct */
    else {
        /* SEQUENCE: an OPTIONAL component must differ from every following component up to and including
         * the first mandatory one */
        if(in.c[0].optional) { if(SAME(0, 1)) collide = 1; if(in.c[1].optional && SAME(0, 2)) collide = 1; }
        if(in.c[1].optional && SAME(1, 2)) collide = 1;
    }
    CHECK(r == 0 || r == -1, "returns 0 or -1");
    CHECK((r == -1) == (collide != 0), "rejects exactly the component lists whose outermost tags are not distinct (X.680)");
    CHECK((r == -1) == (fatal_count > 0), "a diagnostic is issued exactly when the check fails");
    WITNESS();
}
