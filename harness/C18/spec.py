import sys, os
sys.path.insert(0, os.path.join(VERIF, 'harness'))
from typed_common import *
NEEDS['T_Ios'] = ['oer__count_bytes', 'encode_dyn_cb', 'dynamic_encoder_cb']
HARNESSES = []
t = 'T_Ios'
for k in ('der',):      # asn1c cannot OER-encode an open type at this commit (oer_encode returns -1 for every row)
    HARNESSES.append(typed(H, 'ios_rt_%s' % k, 'typed/roundtrip.c', t, k, functions=['%s encode+decode of T-Ios, select_T_Ios_val_type' % k],
                           inputs='row of the object set (symbolic), payload value (symbolic)'))
    HARNESSES.append(typed(H, 'ios_enc_%s' % k, 'typed/enc_exact.c', t, k, functions=['%s encoder of T-Ios vs reference' % k],
                           inputs='row of the object set (symbolic), payload value (symbolic)'))
    HARNESSES.append(typed(H, 'ios_dec_%s' % k, 'typed/dec_exact.c', t, k, leak=True, alloc=True, model_defines=['-DVERIF_ALLOC_ROUND'], functions=['%s decoder of T-Ios on the reference encoding' % k], maxdeepen=7000, timeout=1800,
                           inputs='row of the object set (symbolic), payload value (symbolic)'))
HARNESSES.append(typed(H, 'ios_mismatch_ber', 'typed/ios_mismatch.c', t, 'der', leak=True, maxdeepen=7000, timeout=1800, alloc=True, model_defines=['-DVERIF_ALLOC_ROUND'], functions=['BER decoder of T-Ios, OPEN_TYPE_ber_get'],
                       inputs='identifier -300..300 (in or out of the set), payload of a type that is not the row\'s', bounds='one payload octet'))
HARNESSES.append(typed(H, 'ios_garbage_ber', 'typed/dec_arbitrary.c', t, 'der', leak=True, defines=['-DNBYTES=6'], functions=['BER decoder of T-Ios'],
                       inputs='6 arbitrary octets', bounds='<= 6 octets'))
SKIP_OER = (typed(H, 'ios_garbage_oer', 'typed/dec_arbitrary.c', t, 'oer', leak=True, defines=['-DNBYTES=5'], tiers=('thorough',), functions=['OER decoder of T-Ios'],
                       inputs='5 arbitrary octets', bounds='<= 5 octets'))
OUTSIDE = ['WITH SYNTAX parsing (exercised only concretely by compiling the corpus)', 'object sets with more than 3 rows, OBJECT IDENTIFIER identifiers, extensible sets', 'UPER and XER of the open type (cost)']
