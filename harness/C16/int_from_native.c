/* C16: native integer -> INTEGER: stored octets are the minimal two's complement form; back-conversion exact */
#include "verif.h"
#include <INTEGER.h>
#include "int_ref.h"
struct inputs { int64_t v; uint64_t u; };
#include "verif_in.h"

static void check_octets(const INTEGER_t *st, __int128 val, const char *what) {
    uint8_t ref[16];
    int n = ref_int_encode(val, ref);
    CHECK(st->buf != 0, "buffer allocated");
    CHECK(st->size == (size_t)n, "stored length is minimal");
    if(st->size == (size_t)n)
        for(int i = 0; i < n; i++) CHECK(st->buf[i] == ref[i], "stored octets are the two's complement of the value");
    (void)what;
}

void harness(void) {
    VERIF_INPUTS();
    INTEGER_t st;
    intmax_t im; uintmax_t um; long l; unsigned long ul;
    int rc;
#if defined(FROM_IMAX) || defined(FROM_LONG)
    memset(&st, 0, sizeof(st));
#ifdef FROM_IMAX
    rc = asn_imax2INTEGER(&st, in.v);
#else
    rc = asn_long2INTEGER(&st, (long)in.v);
#endif
    CHECK(rc == 0, "conversion succeeds");
    check_octets(&st, in.v, "signed");
    CHECK(asn_INTEGER2imax(&st, &im) == 0 && im == in.v, "INTEGER2imax returns the value");
    CHECK(asn_INTEGER2long(&st, &l) == 0 && l == in.v, "INTEGER2long returns the value");
    errno = 0;
    rc = asn_INTEGER2umax(&st, &um);
    if(in.v >= 0) CHECK(rc == 0 && um == (uint64_t)in.v, "INTEGER2umax returns a non-negative value");
    else CHECK(rc == -1 && errno == ERANGE, "INTEGER2umax reports ERANGE for a negative INTEGER");
    errno = 0;
    rc = asn_INTEGER2ulong(&st, &ul);
    if(in.v >= 0) CHECK(rc == 0 && ul == (uint64_t)in.v, "INTEGER2ulong returns a non-negative value");
    else CHECK(rc == -1 && errno == ERANGE, "INTEGER2ulong reports ERANGE for a negative INTEGER");
#else
    memset(&st, 0, sizeof(st));
#ifdef FROM_UMAX
    rc = asn_umax2INTEGER(&st, in.u);
#else
    rc = asn_ulong2INTEGER(&st, (unsigned long)in.u);
#endif
    CHECK(rc == 0, "conversion succeeds");
    check_octets(&st, (__int128)in.u, "unsigned");
    CHECK(asn_INTEGER2umax(&st, &um) == 0 && um == in.u, "INTEGER2umax returns the value");
    CHECK(asn_INTEGER2ulong(&st, &ul) == 0 && ul == in.u, "INTEGER2ulong returns the value");
    errno = 0;
    rc = asn_INTEGER2imax(&st, &im);
    if(in.u <= INT64_MAX) CHECK(rc == 0 && im == (int64_t)in.u, "INTEGER2imax returns a value that fits");
    else CHECK(rc == -1 && errno == ERANGE, "INTEGER2imax reports ERANGE above INTMAX_MAX");
    errno = 0;
    rc = asn_INTEGER2long(&st, &l);
    if(in.u <= INT64_MAX) CHECK(rc == 0 && l == (int64_t)in.u, "INTEGER2long returns a value that fits");
    else CHECK(rc == -1 && errno == ERANGE, "INTEGER2long reports ERANGE above LONG_MAX");
#endif
    WITNESS();
}
