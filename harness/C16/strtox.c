/* C16: decimal text parsers accept exactly the in-range numerals */
#include "verif.h"
#include <INTEGER.h>
#ifndef NMAX
#define NMAX 21
#endif
struct inputs { char s[NMAX + 1]; uint8_t len; };
#include "verif_in.h"

/* reference: sign, then the maximal run of digits accumulated in 128 bits (saturating) */
void harness(void) {
    VERIF_INPUTS();
    ASSUME(in.len <= NMAX);
    const char *end = in.s + in.len;
    int pos = 0, neg = 0, has_sign = 0;
    if(in.len > 0 && (in.s[0] == '-' || in.s[0] == '+')) {
#ifdef UNSIGNED_PARSER
        if(in.s[0] == '+') { has_sign = 1; pos = 1; }
#else
        has_sign = 1; neg = in.s[0] == '-'; pos = 1;
#endif
    }
    unsigned __int128 acc = 0;
    int sat = 0, nd = 0;
    int p = pos;
    for(; p < in.len && in.s[p] >= '0' && in.s[p] <= '9'; p++, nd++) {
        if(acc > ((unsigned __int128)1 << 100)) sat = 1; else acc = acc * 10 + (unsigned)(in.s[p] - '0');
    }
#ifdef UNSIGNED_PARSER
    uintmax_t val = 0;
    enum asn_strtox_result_e r = asn_strtoumax_lim(in.s, &end, &val);
    int inrange = !sat && acc <= (unsigned __int128)UINT64_MAX;
    int minus = in.len > 0 && in.s[0] == '-';
#else
    intmax_t val = 0;
    enum asn_strtox_result_e r = asn_strtoimax_lim(in.s, &end, &val);
    int inrange = !sat && (neg ? acc <= ((unsigned __int128)1 << 63) : acc <= (unsigned __int128)INT64_MAX);
    int minus = 0;
#endif
    if(in.len == 0 || minus) {
        CHECK(r == ASN_STRTOX_ERROR_INVAL, "empty input (or '-' for the unsigned parser) is invalid");
    } else if(has_sign && in.len == 1) {
        CHECK(r == ASN_STRTOX_EXPECT_MORE, "a lone sign expects more");
    } else if(!inrange) {
        CHECK(r == ASN_STRTOX_ERROR_RANGE, "out-of-range numeral is rejected with ERROR_RANGE");
    } else {
        CHECK(r == (p == in.len ? ASN_STRTOX_OK : ASN_STRTOX_EXTRA_DATA), "in-range numeral accepted (OK, or EXTRA_DATA when something follows)");
        CHECK(end == in.s + p, "*end is just past the last digit");
#ifdef UNSIGNED_PARSER
        CHECK(val == (uint64_t)acc, "parsed value");
#else
        CHECK(val == (neg ? (int64_t)(0 - (uint64_t)acc) : (int64_t)acc), "parsed value");
#endif
    }
    WITNESS();
}
