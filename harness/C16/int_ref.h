/* reference: minimal two's complement octets of a 65-bit signed value given as (neg, magnitude-ish) */
#ifndef INT_REF_H
#define INT_REF_H
#include <stdint.h>
/* minimal two's-complement big-endian encoding of a signed 128-bit value; returns length */
static int ref_int_encode(__int128 v, uint8_t *out /* >= 16 */) {
    int n = 16;
    uint8_t tmp[16];
    for(int i = 0; i < 16; i++) tmp[i] = (uint8_t)(v >> (8 * (15 - i)));
    int start = 0;
    while(start < 15 && ((tmp[start] == 0x00 && !(tmp[start + 1] & 0x80)) ||
                         (tmp[start] == 0xff && (tmp[start + 1] & 0x80))))
        start++;
    n = 16 - start;
    for(int i = 0; i < n; i++) out[i] = tmp[start + i];
    return n;
}
/* value of a big-endian two's-complement octet string of 1..16 octets */
static __int128 ref_int_decode(const uint8_t *b, int n) {
    unsigned __int128 v = (b[0] & 0x80) ? ~(unsigned __int128)0 : 0;
    for(int i = 0; i < n; i++) v = (v << 8) | b[i];
    return (__int128)v;
}
#endif
