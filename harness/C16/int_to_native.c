/* C16: arbitrary INTEGER octets (1..10, incl. non-minimal) -> native: exact value or ERANGE, nothing else */
#include "verif.h"
#include <INTEGER.h>
#include "int_ref.h"
#ifndef NMAX
#define NMAX 10
#endif
struct inputs { uint8_t buf[NMAX + 1]; uint8_t size; };
#include "verif_in.h"

void harness(void) {
    VERIF_INPUTS();
    ASSUME(in.size >= 1 && in.size <= NMAX);
    INTEGER_t st;
    memset(&st, 0, sizeof(st));
    st.buf = in.buf;
    st.size = in.size;
    __int128 V = ref_int_decode(in.buf, in.size);
    intmax_t im = 0; uintmax_t um = 0; long l = 0; unsigned long ul = 0;
    int rc;
    errno = 0; rc = asn_INTEGER2imax(&st, &im);
    if(V >= INT64_MIN && V <= INT64_MAX) CHECK(rc == 0 && im == (int64_t)V, "INTEGER2imax exact");
    else CHECK(rc == -1 && errno == ERANGE, "INTEGER2imax ERANGE exactly when it does not fit");
    errno = 0; rc = asn_INTEGER2long(&st, &l);
    if(V >= INT64_MIN && V <= INT64_MAX) CHECK(rc == 0 && l == (int64_t)V, "INTEGER2long exact");
    else CHECK(rc == -1 && errno == ERANGE, "INTEGER2long ERANGE exactly when it does not fit");
    errno = 0; rc = asn_INTEGER2umax(&st, &um);
    if(V >= 0 && V <= (__int128)UINT64_MAX) CHECK(rc == 0 && um == (uint64_t)V, "INTEGER2umax exact");
    else CHECK(rc == -1 && errno == ERANGE, "INTEGER2umax ERANGE exactly when it does not fit");
    errno = 0; rc = asn_INTEGER2ulong(&st, &ul);
    if(V >= 0 && V <= (__int128)UINT64_MAX) CHECK(rc == 0 && ul == (uint64_t)V, "INTEGER2ulong exact");
    else CHECK(rc == -1 && errno == ERANGE, "INTEGER2ulong ERANGE exactly when it does not fit");
    WITNESS();
}
