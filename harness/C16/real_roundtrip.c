/* C16: asn_double2REAL -> asn_REAL2double for all 2^64 bit patterns, plus DER canonical form */
#include "verif.h"
#include <REAL.h>
struct inputs { uint64_t bits; };
#include "verif_in.h"

#define EXPF(b) (((b) >> 52) & 0x7ff)
#define MANT(b) ((b) & 0xfffffffffffffULL)
#define IS_SUBNORMAL(b) (EXPF(b) == 0 && MANT(b) != 0)

void harness(void) {
    VERIF_INPUTS();
    double d, back = 0;
    memcpy(&d, &in.bits, 8);
    REAL_t st;
    memset(&st, 0, sizeof(st));
    int rc = asn_double2REAL(&st, d);
    CHECK(rc == 0, "asn_double2REAL succeeds");
    CHECK(st.buf != 0, "buffer allocated");
    rc = asn_REAL2double(&st, &back);
    CHECK(rc == 0, "asn_REAL2double succeeds on own output");
    uint64_t bb;
    memcpy(&bb, &back, 8);
    int isnan_in = EXPF(in.bits) == 0x7ff && MANT(in.bits) != 0;
    if(isnan_in) {
        CHECK(EXPF(bb) == 0x7ff && MANT(bb) != 0, "NaN -> NaN");
    } else {
        CHECK(bb == in.bits, "double -> REAL -> double is bit-exact");
    }
    /* X.690 8.5 / 11.3 canonical contents */
    uint64_t m = MANT(in.bits);
    unsigned e = EXPF(in.bits);
    int neg = (int)(in.bits >> 63);
    if(e == 0x7ff) {
        CHECK(st.size == 1, "special value: one octet");
        CHECK(st.buf[0] == (m ? 0x42 : neg ? 0x41 : 0x40), "special value octet");
    } else if(e == 0 && m == 0) {
        if(neg) { CHECK(st.size == 1 && st.buf[0] == 0x43, "minus zero"); }
        else CHECK(st.size == 0, "plus zero has no contents");
    } else {
        /* reference: N odd, value = N * 2^E */
        uint64_t N = e ? (m | (1ULL << 52)) : m;
        int E = (e ? (int)e - 1023 : -1022) - 52;
        while(!(N & 1)) { N >>= 1; E++; }
        int elen = (E >= -128 && E <= 127) ? 1 : (E >= -32768 && E <= 32767) ? 2 : 3;
        int mlen = 0;
        for(uint64_t t = N; t; t >>= 8) mlen++;
        CHECK(st.size == (size_t)(1 + elen + mlen), "binary REAL: minimal exponent and mantissa octets");
        if(st.size == (size_t)(1 + elen + mlen)) {
            CHECK(st.buf[0] == (0x80 | (neg ? 0x40 : 0) | (elen - 1)), "binary REAL: first octet base 2, F=0");
            int32_t ee = (int8_t)st.buf[1];
            for(int i = 1; i < elen; i++) ee = ee * 256 + st.buf[1 + i];
            CHECK(ee == E, "binary REAL: exponent");
            uint64_t nn = 0;
            for(int i = 0; i < mlen; i++) nn = (nn << 8) | st.buf[1 + elen + i];
            CHECK(nn == N, "binary REAL: odd mantissa");
        }
    }
    WITNESS();
}
