"""Shared spec helpers for type-level (corpus) harnesses."""
SY = {'der': '-DSYN_DER', 'uper': '-DSYN_UPER', 'oer': '-DSYN_OER'}
CB = r'|dynamic_encoder_cb|oer__count_bytes|encode_to_buffer_cb|encode_dyn_cb|overrun_encoder_cb|callback_count_bytes_cb|callback_failure_catch_cb|_print2fp|print2s'
EXC = {'der': r'xer|_print|random_fill|_oer|_uper|_aper' + CB,
       'uper': r'xer|_print|random_fill|_oer|_aper' + CB,
       'oer': r'xer|_print|random_fill|_uper|_aper' + CB}


def GEN(t, extra=()):
    return {'modules': [t + '.asn1'], 'opts': ['-gen-PER', '-gen-OER'] + list(extra), 'skip': ['pdu_collection.c']}


# per-type legitimate byte sinks / helpers that the default exclusion would remove
NEEDS = {'T_SeqX': ['oer__count_bytes', 'encode_dyn_cb'], 'T_SeqX1': ['oer__count_bytes', 'encode_dyn_cb'], 'T_Cho': []}
MODELS = {'T_SetOf': ['sort'], 'T_Enum': ['sort'], 'T_EnumX': ['sort'], 'T_Nest': ['sort']}


def unexclude(ex, t):
    for n in NEEDS.get(t, []):
        ex = ex.replace('|' + n, '')
    return ex


def typed(H, name, src, t, k, defines=(), **kw):
    ex = unexclude(kw.pop('exclude', EXC[k]), t)
    kw['models'] = sorted(set(list(kw.get('models', [])) + MODELS.get(t, []) + ['realloc', 'sort']))
    return H(name, src, gen=GEN(t), defines=['-DDRV="drv/%s.h"' % t, SY[k]] + list(defines),
             exclude=ex, roots=['asn_DEF_' + t], **kw)

ALL_TYPES = ['T_Seq', 'T_SeqX', 'T_SeqX1', 'T_Cho', 'T_SeqOf', 'T_SetOf', 'T_Set', 'T_Int', 'T_Int8', 'T_IntR', 'T_Int16', 'T_Int17', 'T_IntOne', 'T_IntX', 'T_IntSemi', 'T_IntNeg', 'T_IntU32', 'T_Bool', 'T_Null', 'T_Enum', 'T_EnumX', 'T_Oct', 'T_OctF', 'T_OctU', 'T_Bits', 'T_IA5', 'T_Oid', 'T_Nest']
NO_OER = {'T_Set'}
NO_UPER = {'T_Set'}     # asn1c has no PER/OER codec for SET (asn_OP_SET slots are 0)
# UPER layouts whose bit offsets depend on the value (variable-length fields, value-dependent presence after a
# variable part): CBMC's merged-state symex needs 5-10 GB and 10-40 min per query there (measured), so these
# (type, uper) pairs are outside the type-level claim; their building blocks are checked as kernels.
# OER extension additions go through oer_open_type_put (encode twice into a counting sink): 8 GB / > 15 min
OER_TOO_COSTLY = {'T_SeqX'}
UPER_TOO_COSTLY = {'T_Oid', 'T_Nest', 'T_Cho', 'T_SeqX', 'T_SeqX1', 'T_SeqOf', 'T_SetOf', 'T_Bits', 'T_OctU', 'T_Int', 'T_IntSemi', 'T_IntNeg', 'T_IntX'}
HEAVY = {('T_Int', 'uper'), ('T_IntSemi', 'uper'), ('T_IntNeg', 'uper'), ('T_IntX', 'uper')}
QUICK_TYPES = ['T_Seq', 'T_SeqX', 'T_SeqX1', 'T_Oid', 'T_Cho', 'T_SeqOf', 'T_Int', 'T_IntX', 'T_Oct', 'T_Bits']


def combos(tier_all=True):
    for t in ALL_TYPES:
        for k in SY:
            if k == 'oer' and t in NO_OER:
                continue
            if k == 'uper' and (t in NO_UPER or t in UPER_TOO_COSTLY):
                continue
            if k == 'oer' and t in OER_TOO_COSTLY:
                continue
            yield t, k
