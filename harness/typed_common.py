"""Shared spec helpers for type-level (corpus) harnesses."""
SY = {'der': '-DSYN_DER', 'uper': '-DSYN_UPER', 'oer': '-DSYN_OER'}
CB = r'|dynamic_encoder_cb|oer__count_bytes|encode_to_buffer_cb|encode_dyn_cb|overrun_encoder_cb|callback_count_bytes_cb|callback_failure_catch_cb|_print2fp|print2s'
EXC = {'der': r'xer|_print|random_fill|_oer|_uper|_aper' + CB,
       'uper': r'xer|_print|random_fill|_oer|_aper' + CB,
       'oer': r'xer|_print|random_fill|_uper|_aper' + CB}


def GEN(t, extra=()):
    return {'modules': [t + '.asn1'], 'opts': ['-gen-PER', '-gen-OER'] + list(extra), 'skip': ['pdu_collection.c']}


def typed(H, name, src, t, k, defines=(), **kw):
    ex = kw.pop('exclude', EXC[k])
    return H(name, src, gen=GEN(t), defines=['-DDRV="drv/%s.h"' % t, SY[k]] + list(defines),
             exclude=ex, roots=['asn_DEF_' + t], **kw)
