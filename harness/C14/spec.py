import sys, os
sys.path.insert(0, os.path.join(VERIF, 'harness'))
from typed_common import *
HARNESSES = []
TY = ['T_Seq', 'T_SeqX1', 'T_Cho', 'T_SeqOf', 'T_Oct', 'T_SeqX', 'T_SetOf', 'T_Bits', 'T_IntW']
Q = {('T_SeqX1', 'oer'), ('T_Seq', 'der'), ('T_Seq', 'oer'), ('T_SeqOf', 'der'), ('T_Oct', 'der'), ('T_Cho', 'oer'), ('T_SeqOf', 'oer')}
for t in TY:
    for k in ('der', 'oer', 'uper'):
        if k == 'uper' and (t in UPER_TOO_COSTLY or t == 'T_IntW'):
            continue
        tiers = ('quick', 'thorough') if (t, k) in Q else ('thorough',)
        n = 5 if t in ('T_SeqX', 'T_SeqX1') else 4      # T-SeqX needs 5 octets to reach the extension bitmap
        def mk(name, src, defs, fn, inp):
            h = typed(H, name, src, t, k, tiers=tiers, leak=True, alloc=True, defines=defs, functions=[fn], inputs=inp, model_defines=(['-DVERIF_ALLOC_ROUND'] if t == 'T_SeqX1' else []),
                      bounds='one allocation failure per history; histories of at most three codec calls')
            if t == 'T_IntW':
                h.gen = dict(h.gen, opts=h.gen['opts'] + ['-fwide-types'])
            return h
        HARNESSES.append(mk('life_garbage_%s_%s' % (t, k), 'typed/dec_arbitrary.c', ['-DNBYTES=%d' % n, '-DALLOC_FAIL'],
                            'decode %d arbitrary octets (%s) with the k-th allocation failing, validate, re-encode, free' % (n, k),
                            '%d arbitrary octets, size, allocation-failure index -1..8' % n))
        if k != 'uper':
            HARNESSES.append(mk('life_prefix_rest_%s_%s' % (t, k), 'typed/dec_chunked.c', ['-DALLOC_FAIL'],
                                'decode prefix, decode rest, free; k-th allocation failing', 'value, split point, allocation-failure index'))
        HARNESSES.append(mk('life_reset_%s_%s' % (t, k), 'typed/lifecycle_reset.c', ['-DNBYTES=%d' % n],
                            'decode garbage, ASN_STRUCT_RESET, decode valid, free', '%d arbitrary octets, then a symbolic value' % n))
        HARNESSES.append(mk('life_encode_%s_%s' % (t, k), 'typed/enc_allocfail.c', [], 'encode with the k-th allocation failing', 'value, allocation-failure index -1..6'))
OUTSIDE = ['more than one allocation failure per history', 'XER', 'histories longer than three codec calls']
