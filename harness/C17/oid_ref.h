#ifndef OID_REF_H
#define OID_REF_H
#include <stdint.h>
/* X.690 8.19: base-128, most significant group first, bit 8 set on all but the last octet,
 * fewest octets (no leading 0x80). v is up to 64 bits (first subidentifier is arc0*40+arc1). */
static int ref_subid(uint64_t v, uint8_t *out) {
    int n = 1;
    for(uint64_t t = v >> 7; t; t >>= 7) n++;
    for(int i = 0; i < n; i++) out[i] = (uint8_t)(((v >> (7 * (n - 1 - i))) & 0x7f) | (i < n - 1 ? 0x80 : 0));
    return n;
}
#endif
