/* C17: asn_GT2time on arbitrary text: memory safe, and either rejected or handed to libc exactly once */
#include "verif.h"
#include <GeneralizedTime.h>
#include <UTCTime.h>
#include <time.h>
#ifndef NMAX
#define NMAX 19
#endif
struct inputs { uint8_t s[NMAX + 1]; uint8_t len; int64_t tret; uint8_t as_gmt; };
#include "verif_in.h"
static struct tm rec_tm; static int calls;
time_t timegm(struct tm *tm) { rec_tm = *tm; calls++; return (time_t)in.tret; }
time_t mktime(struct tm *tm) { rec_tm = *tm; calls++; return (time_t)in.tret; }
struct tm *gmtime_r(const time_t *t, struct tm *r) { (void)t; *r = rec_tm; return r; }
struct tm *localtime_r(const time_t *t, struct tm *r) { (void)t; *r = rec_tm; return r; }

void harness(void) {
    VERIF_INPUTS();
    ASSUME(in.len <= NMAX);
    GeneralizedTime_t g; memset(&g, 0, sizeof(g));
    g.buf = in.s; g.size = in.len;
    struct tm out; int fv = 0, fd = 0;
#ifdef UT
    time_t t = asn_UT2time(&g, &out, in.as_gmt & 1);
#else
    time_t t = asn_GT2time_frac(&g, &fv, &fd, &out, in.as_gmt & 1);
#endif
    if(t != -1) {
        CHECK(calls == 1, "accepted text is converted by libc exactly once");
        CHECK(rec_tm.tm_mon >= 0 && rec_tm.tm_mon <= 11 && rec_tm.tm_mday >= 1 && rec_tm.tm_mday <= 31 &&
              rec_tm.tm_hour >= 0 && rec_tm.tm_hour <= 23, "accepted fields are within calendar ranges");
        int alldig = 1;
#ifdef UT
        for(int i = 0; i < 8; i++) if(in.s[i] < '0' || in.s[i] > '9') alldig = 0;
#else
        for(int i = 0; i < 10; i++) if(in.s[i] < '0' || in.s[i] > '9') alldig = 0;
#endif
        CHECK(alldig, "accepted text starts with YYYYMMDDHH (YYMMDDHH for UTCTime) digits");
    } else {
        CHECK(calls <= 1, "at most one libc conversion");
    }
    WITNESS();
}
