O = ['skeletons/OBJECT_IDENTIFIER.c', 'skeletons/RELATIVE-OID.c', 'skeletons/INTEGER.c']
T = ['skeletons/GeneralizedTime.c', 'skeletons/UTCTime.c']
HARNESSES = [
    H('oid_set_get', 'C17/oid_set_get.c', sources=O, defines=['-DNARCS=3'], solver='race', timeout=600, functions=['OBJECT_IDENTIFIER_set_arcs', 'OBJECT_IDENTIFIER_set_single_arc', 'OBJECT_IDENTIFIER_get_arcs', 'OBJECT_IDENTIFIER_get_single_arc'],
      inputs='arc vector of length 2..5, every arc 32 bits symbolic (valid and invalid first pairs)', bounds='<= 5 arcs'),
    H('reloid_set_get', 'C17/oid_set_get.c', sources=O, defines=['-DRELATIVE', '-DNARCS=3'], solver='race', timeout=600, functions=['RELATIVE_OID_set_arcs', 'RELATIVE_OID_get_arcs'],
      inputs='arc vector of length 2..5, every arc 32 bits symbolic', bounds='<= 5 arcs'),
    H('oid_get', 'C17/oid_get.c', sources=O, functions=['OBJECT_IDENTIFIER_get_single_arc', 'OBJECT_IDENTIFIER_get_arcs'],
      inputs='8 arbitrary octets, size 0..8 (non-minimal, truncated and overflowing subidentifiers included)', bounds='<= 8 octets'),
    H('oid_parse_q', 'C17/oid_parse.c', sources=O, defines=['-DNARCS=2', '-DFIRST_ONE_DIGIT'], tiers=('quick',), solver='race', timeout=600,
      functions=['OBJECT_IDENTIFIER_parse_arcs', 'asn_strtoul_lim', 'asn_strtoumax_lim'], inputs='2 arcs: one symbolic digit, then 1..10 symbolic digits', bounds='2 arcs'),
    H('oid_parse', 'C17/oid_parse.c', sources=O, defines=['-DNARCS=2'], tiers=('thorough',), functions=['OBJECT_IDENTIFIER_parse_arcs', 'asn_strtoul_lim', 'asn_strtoumax_lim'],
      inputs='2..3 arcs, each 1..10 symbolic decimal digits (leading zeros, values above 2^32 included)', bounds='<= 3 arcs, <= 10 digits each', solver='race', timeout=600),
    H('oid_parse4', 'C17/oid_parse.c', sources=O, defines=['-DNARCS=4'], tiers=('thorough',), functions=['OBJECT_IDENTIFIER_parse_arcs'],
      inputs='2..4 arcs, each 1..10 symbolic decimal digits', bounds='<= 4 arcs', solver='race', timeout=3000),
    H('gt_roundtrip', 'C17/time_rt.c', sources=T, models=['printf'], functions=['asn_time2GT_frac', 'asn_GT2time_frac'],
      inputs='broken-down GMT time: year 0..9999, month, day 1..31, h, m, s 0..60; fraction value 0..999 with 0..3 digits; timegm result arbitrary',
      bounds='calendar validity of day-of-month is libc\'s business (stubbed)', solver='race', timeout=600),
    H('ut_roundtrip', 'C17/time_rt.c', sources=T, models=['printf'], defines=['-DUT'], functions=['asn_time2UT', 'asn_UT2time'],
      inputs='broken-down GMT time, year 1960..2059 (the code\'s two-digit window), timegm result arbitrary', bounds='', solver='race', timeout=600),
    H('gt_parse', 'C17/time_parse.c', sources=T, functions=['asn_GT2time_frac'],
      inputs='19 arbitrary characters, length 0..19, as_gmt flag', bounds='<= 19 characters'),
    H('ut_parse', 'C17/time_parse.c', sources=T, defines=['-DUT'], functions=['asn_UT2time'],
      inputs='19 arbitrary characters, length 0..19, as_gmt flag', bounds='<= 19 characters'),
]
ASSUMPTIONS = ['timegm/mktime/gmtime_r/localtime_r are stubs: they record their argument and return an arbitrary value (time-zone rules and time_t<->calendar arithmetic are libc\'s and outside the claim)',
               'vsnprintf is a model of the conversions the skeletons use (validated against glibc by setup)']
OUTSIDE = ['time zones, DST, TZ handling, tm_gmtoff != 0', 'arc vectors longer than 5; OID contents longer than 8 octets; dotted text with more than 4 arcs or whitespace variants']
