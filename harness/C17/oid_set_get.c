/* C17: set_arcs -> octets are the X.690 8.19 form -> get_arcs returns the same vector */
#include "verif.h"
#include <OBJECT_IDENTIFIER.h>
#include <RELATIVE-OID.h>
#include "oid_ref.h"
#ifndef NARCS
#define NARCS 5
#endif
struct inputs { uint32_t arcs[NARCS]; uint8_t n; };
#include "verif_in.h"

void harness(void) {
    VERIF_INPUTS();
    ASSUME(in.n >= 2 && in.n <= NARCS);
#ifdef RELATIVE
    RELATIVE_OID_t st;
    memset(&st, 0, sizeof(st));
    int rc = RELATIVE_OID_set_arcs(&st, in.arcs, in.n);
    CHECK(rc == 0, "RELATIVE_OID_set_arcs succeeds");
    uint8_t ref[5 * NARCS + 1]; int rl = 0;
    for(int i = 0; i < in.n; i++) rl += ref_subid(in.arcs[i], ref + rl);
#else
    OBJECT_IDENTIFIER_t st;
    memset(&st, 0, sizeof(st));
    int valid = (in.arcs[0] <= 1 && in.arcs[1] < 40) || (in.arcs[0] == 2 && in.arcs[1] <= 0xffffffffu - 80);
    errno = 0;
    int rc = OBJECT_IDENTIFIER_set_arcs(&st, in.arcs, in.n);
    if(!valid) {
        CHECK(rc == -1 && errno == ERANGE, "set_arcs rejects an invalid first pair with ERANGE (8.19.4)");
        CHECK(st.buf == 0, "nothing stored on failure");
        WITNESS();
        return;
    }
    CHECK(rc == 0, "set_arcs succeeds for a valid first pair");
    uint8_t ref[5 * NARCS + 1]; int rl = 0;
    rl += ref_subid((uint64_t)in.arcs[0] * 40 + in.arcs[1], ref + rl);
    for(int i = 2; i < in.n; i++) rl += ref_subid(in.arcs[i], ref + rl);
#endif
    CHECK(st.buf != 0 && st.size == (size_t)rl, "stored length is the X.690 8.19 length");
    if(st.buf && st.size == (size_t)rl)
        for(int i = 0; i < rl; i++) CHECK(st.buf[i] == ref[i], "stored octets are the X.690 8.19 octets");
    uint32_t back[NARCS];
    memset(back, 0, sizeof(back));
#ifdef RELATIVE
    ssize_t got = RELATIVE_OID_get_arcs(&st, back, NARCS);
#else
    ssize_t got = OBJECT_IDENTIFIER_get_arcs(&st, back, NARCS);
#endif
    CHECK(got == in.n, "get_arcs returns the number of arcs");
    for(int i = 0; i < NARCS; i++) if(i < in.n) CHECK(back[i] == in.arcs[i], "get_arcs returns the arcs");
    WITNESS();
}
