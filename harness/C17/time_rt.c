/* C17: time -> GeneralizedTime/UTCTime (forced GMT) -> time; asn1c's own formatting and parsing.
 * libc calendar functions are stubs: timegm/mktime record their argument and return an arbitrary time_t. */
#include "verif.h"
#include <GeneralizedTime.h>
#include <UTCTime.h>
#include <time.h>
struct inputs { int16_t year; uint8_t mon, mday, hour, min, sec; int16_t fv; uint8_t fd; int64_t tret; };
#include "verif_in.h"

static struct tm rec_tm; static int timegm_calls, mktime_calls;
time_t timegm(struct tm *tm) { rec_tm = *tm; timegm_calls++; return (time_t)in.tret; }
time_t mktime(struct tm *tm) { rec_tm = *tm; mktime_calls++; return (time_t)in.tret; }
struct tm *gmtime_r(const time_t *t, struct tm *r) { (void)t; *r = rec_tm; return r; }
struct tm *localtime_r(const time_t *t, struct tm *r) { (void)t; *r = rec_tm; return r; }

static int put2(char *p, int v) { p[0] = '0' + (v / 10) % 10; p[1] = '0' + v % 10; return 2; }

void harness(void) {
    VERIF_INPUTS();
#ifdef UT
    ASSUME(in.year >= 1960 && in.year <= 2059);
#else
    ASSUME(in.year >= 0 && in.year <= 9999);
#endif
    ASSUME(in.mon <= 11 && in.mday >= 1 && in.mday <= 31 && in.hour <= 23 && in.min <= 59 && in.sec <= 60);
    ASSUME(in.tret != -1);
    struct tm tm; memset(&tm, 0, sizeof(tm));
    tm.tm_year = in.year - 1900; tm.tm_mon = in.mon; tm.tm_mday = in.mday;
    tm.tm_hour = in.hour; tm.tm_min = in.min; tm.tm_sec = in.sec; tm.tm_gmtoff = 0;
    char ref[32]; int rl = 0;
#ifdef UT
    UTCTime_t *g = asn_time2UT(0, &tm, 1);
    rl += put2(ref + rl, in.year % 100);
#else
    ASSUME(in.fd <= 3 && in.fv >= 0 && in.fv <= 999);
    GeneralizedTime_t *g = asn_time2GT_frac(0, &tm, in.fv, in.fd, 1);
    rl += put2(ref + rl, in.year / 100); rl += put2(ref + rl, in.year % 100);
#endif
    rl += put2(ref + rl, in.mon + 1); rl += put2(ref + rl, in.mday); rl += put2(ref + rl, in.hour);
    rl += put2(ref + rl, in.min); rl += put2(ref + rl, in.sec);
    int rfv = 0, rfd = 0;
#ifndef UT
    {   /* fraction: fv/10^fd when fv < 10^fd, trailing zeros stripped */
        int p10 = in.fd == 0 ? 1 : in.fd == 1 ? 10 : in.fd == 2 ? 100 : 1000;
        if(in.fv > 0 && in.fd > 0 && in.fv < p10) {
            rfv = in.fv; rfd = in.fd;
            while(rfv % 10 == 0) { rfv /= 10; rfd--; }
            ref[rl++] = '.';
            int q = rfd == 1 ? 1 : rfd == 2 ? 10 : 100;
            for(int t = rfv; q; q /= 10) { ref[rl++] = '0' + (t / q) % 10; }
        }
    }
#endif
    ref[rl++] = 'Z';
    CHECK(g != 0, "conversion to text succeeds");
    if(!g) return;
    CHECK(g->size == rl, "canonical length");
    if(g->size == rl) for(int i = 0; i < rl; i++) CHECK(g->buf[i] == (uint8_t)ref[i], "canonical YYYYMMDDHHMMSS[.f]Z text");
    CHECK(timegm_calls == 0 && mktime_calls == 0, "no calendar arithmetic needed for a GMT tm");
    /* and back */
    struct tm out; memset(&out, 0, sizeof(out));
    int fv2 = -1, fd2 = -1;
#ifdef UT
    time_t t = asn_UT2time(g, &out, 1);
#else
    time_t t = asn_GT2time_frac(g, &fv2, &fd2, &out, 1);
    CHECK(fv2 == rfv && fd2 == rfd, "fraction digits preserved");
#endif
    CHECK(timegm_calls == 1 && mktime_calls == 0, "text with Z is converted with timegm exactly once");
    CHECK(t == (time_t)in.tret, "returns what timegm returns");
    CHECK(rec_tm.tm_year == tm.tm_year && rec_tm.tm_mon == tm.tm_mon && rec_tm.tm_mday == tm.tm_mday &&
          rec_tm.tm_hour == tm.tm_hour && rec_tm.tm_min == tm.tm_min && rec_tm.tm_sec == tm.tm_sec,
          "timegm receives the same broken-down time");
    WITNESS();
}
