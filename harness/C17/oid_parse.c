/* C17: parsing the dotted text form of an arc vector returns it (text digits symbolic) */
#include "verif.h"
#include <OBJECT_IDENTIFIER.h>
#ifndef NARCS
#define NARCS 3
#endif
#define DMAX 10
struct inputs { uint8_t nd[NARCS]; uint8_t dig[NARCS][DMAX]; uint8_t n; };
#include "verif_in.h"

void harness(void) {
    VERIF_INPUTS();
    ASSUME(in.n >= 2 && in.n <= NARCS);
    char text[NARCS * (DMAX + 1) + 1];
    int len = 0; uint64_t val[NARCS]; int over = 0;
    for(int a = 0; a < NARCS; a++) {
        if(a >= in.n) break;
        ASSUME(in.nd[a] >= 1 && in.nd[a] <= DMAX);
#ifdef FIRST_ONE_DIGIT
        if(a == 0) ASSUME(in.nd[a] == 1);
#endif
        if(a) text[len++] = '.';
        uint64_t acc = 0;
        for(int i = 0; i < DMAX; i++) {
            if(i >= in.nd[a]) break;
            ASSUME(in.dig[a][i] <= 9);
            text[len++] = (char)('0' + in.dig[a][i]);
            acc = acc * 10 + in.dig[a][i];
        }
        val[a] = acc;
        if(acc > 0xffffffffu) over = 1;
    }
    text[len] = 0;
    asn_oid_arc_t arcs[NARCS]; memset(arcs, 0, sizeof(arcs));
    const char *endp = 0;
    errno = 0;
    ssize_t r = OBJECT_IDENTIFIER_parse_arcs(text, len, arcs, NARCS, &endp);
    if(over) CHECK(r == -1 && errno == ERANGE, "an arc above ASN_OID_ARC_MAX is rejected (ERANGE)");
    else {
        CHECK(r == in.n, "parse_arcs returns the number of arcs");
        CHECK(endp == text + len, "whole text consumed");
        for(int a = 0; a < NARCS; a++) if(a < in.n) CHECK(arcs[a] == val[a], "parse_arcs returns the arcs");
    }
    WITNESS();
}
