/* C17: arbitrary OID contents -> get_single_arc / get_arcs agree with a reference base-128 reader */
#include "verif.h"
#include <OBJECT_IDENTIFIER.h>
#ifndef NMAX
#define NMAX 8
#endif
struct inputs { uint8_t buf[NMAX]; uint8_t size; };
#include "verif_in.h"

/* reference: >0 octets used and *v; 0 empty; -1 truncated; -2 overflow (value >= 2^32) */
static int ref_get(const uint8_t *b, int n, uint64_t *v) {
    if(n == 0) return 0;
    unsigned __int128 acc = 0;
    for(int i = 0; i < n; i++) {
        acc = (acc << 7) | (b[i] & 0x7f);
        if(!(b[i] & 0x80)) { if(acc > 0xffffffffu) return -2; *v = (uint64_t)acc; return i + 1; }
    }
    return -1;
}

void harness(void) {
    VERIF_INPUTS();
    ASSUME(in.size <= NMAX);
    uint64_t rv = 0; asn_oid_arc_t v = 0;
    int rr = ref_get(in.buf, in.size, &rv);
    errno = 0;
    ssize_t r = OBJECT_IDENTIFIER_get_single_arc(in.buf, in.size, &v);
    if(rr > 0) CHECK(r == rr && v == rv, "get_single_arc returns the subidentifier and its length");
    else if(rr == 0) CHECK(r == 0, "empty input yields 0");
    else if(rr == -1) CHECK(r == -1 && (errno == EINVAL || errno == ERANGE), "truncated subidentifier is rejected (EINVAL, or ERANGE when it already overflowed)");
    else CHECK(r == -1 && errno == ERANGE, "subidentifier above ASN_OID_ARC_MAX is rejected (ERANGE)");

    /* whole-value reader */
    OBJECT_IDENTIFIER_t st; memset(&st, 0, sizeof(st)); st.buf = in.buf; st.size = in.size;
    asn_oid_arc_t arcs[NMAX + 1]; memset(arcs, 0, sizeof(arcs));
    ssize_t n = OBJECT_IDENTIFIER_get_arcs(&st, arcs, NMAX + 1);
    uint64_t ra[NMAX + 1]; int rn = 0, off = 0, bad = 0;
    for(int k = 0; k <= NMAX; k++) {
        if(off >= in.size) break;
        uint64_t t; int q = ref_get(in.buf + off, in.size - off, &t);
        if(q <= 0) { bad = 1; break; }
        if(k == 0) { uint64_t a0 = t >= 80 ? 2 : t >= 40 ? 1 : 0; ra[rn++] = a0; ra[rn++] = t - a0 * 40; }
        else ra[rn++] = t;
        off += q;
    }
    if(in.size == 0 || bad) CHECK(n == -1, "get_arcs fails on empty, truncated or overflowing contents");
    else {
        CHECK(n == rn, "get_arcs returns the number of arcs");
        for(int i = 0; i < NMAX + 1; i++) if(i < rn) CHECK(arcs[i] == ra[i], "get_arcs returns the arcs");
    }
    WITNESS();
}
