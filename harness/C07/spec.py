import sys, os
sys.path.insert(0, os.path.join(VERIF, 'harness'))
from typed_common import *
ATS = {'der': ('ATS_DER', 0), 'uper': ('ATS_UNALIGNED_CANONICAL_PER', 1), 'oer': ('ATS_CANONICAL_OER', 2)}
# asn_encode wraps the user's callback; keep those wrappers as legal targets
XB = r'xer|_print|random_fill|dynamic_encoder_cb|oer__count_bytes|encode_to_buffer_cb|encode_dyn_cb|callback_count_bytes_cb|_print2fp|print2s'
EXM = {'MODE_CBFAIL': XB + '|overrun_encoder_cb', 'MODE_ILLFORMED': XB + '|overrun_encoder_cb',
       'MODE_BUFFER': XB + '|callback_failure_catch_cb',
       'MODE_NEWBUF': XB.replace('dynamic_encoder_cb|', '') + '|overrun_encoder_cb|callback_failure_catch_cb'}
HARNESSES = []
Q = {('T_Seq', 'der'), ('T_Seq', 'oer'), ('T_Seq', 'uper'), ('T_Cho', 'oer'), ('T_SeqOf', 'der'), ('T_SeqX', 'oer'), ('T_Oct', 'uper'), ('T_Int', 'oer'), ('T_Null', 'der'), ('T_Set', 'der')}
for t, k in combos():
    for mode in ('MODE_CBFAIL', 'MODE_BUFFER', 'MODE_NEWBUF', 'MODE_ILLFORMED'):
        # types outside QUICK_TYPES: only the callback-failure mode (added after seed C07-setof-der-cbfail-last-element,
        # which also exposed the NULL_encode_der defect fixed in /repo)
        if t not in QUICK_TYPES and mode != 'MODE_CBFAIL':
            continue
        q = (t, k) in Q and (mode in ('MODE_CBFAIL',) or t == 'T_Seq')
        other = {'der': '_oer|_uper|_aper', 'uper': '_oer|_aper', 'oer': '_uper|_aper'}[k]
        HARNESSES.append(typed(H, 'c07_%s_%s_%s' % (mode[5:].lower(), t, k), 'typed/enc_contract.c', t, k,
                               defines=['-D' + mode, '-DSYNTAX=' + ATS[k][0], '-DSYNTAX_IS=%d' % ATS[k][1]],
                               exclude=EXM[mode] + '|' + other, alloc=(mode == 'MODE_NEWBUF'),
                               tiers=('quick', 'thorough') if q else ('thorough',),
                               functions=['asn_encode*/%s on %s' % (k, t)],
                               inputs='value of %s + %s' % (t, {'MODE_CBFAIL': 'callback failure index -1..8', 'MODE_BUFFER': 'buffer size 0..max+1',
                                                               'MODE_NEWBUF': 'allocation failure index -1..6', 'MODE_ILLFORMED': 'values outside the constraints'}[mode])))

# encodings whose size crosses the initial 16-octet capacity of asn_encode_to_new_buffer
for k in ('der', 'oer'):
    other = {'der': '_oer|_uper|_aper', 'oer': '_uper|_aper'}[k]
    HARNESSES.append(typed(H, 'c07_newbuf_T_Oct16_%s' % k, 'typed/enc_contract.c', 'T_Oct16', k,
                           defines=['-DMODE_NEWBUF', '-DSYNTAX=' + ATS[k][0], '-DSYNTAX_IS=%d' % ATS[k][1]],
                           exclude=EXM['MODE_NEWBUF'] + '|' + other, alloc=True,
                           functions=['asn_encode_to_new_buffer/%s on T-Oct16 (encoding size 13..18 around the initial capacity 16)' % k],
                           inputs='OCTET STRING of 12..16 symbolic octets, allocation failure index -1..6'))
    HARNESSES.append(typed(H, 'c07_buffer_T_Oct16_%s' % k, 'typed/enc_contract.c', 'T_Oct16', k, tiers=('thorough',),
                           defines=['-DMODE_BUFFER', '-DSYNTAX=' + ATS[k][0], '-DSYNTAX_IS=%d' % ATS[k][1]],
                           exclude=EXM['MODE_BUFFER'] + '|' + other,
                           functions=['asn_encode_to_buffer/%s on T-Oct16' % k], inputs='OCTET STRING of 12..16 symbolic octets, buffer size 0..21'))

# DER SET OF under callback failure: with symbolic elements the query does not conclude (>10 GB during propositional
# reduction: SET_OF__encode_sorted keeps every element in its own heap buffer and sorts an array of structs holding
# those pointers), so the VALUE is fixed and only the fault schedule (callback failure index -1..8) is symbolic.
# Added after seed C07-setof-der-cbfail-last-element.
for nfix in (1, 2):
    HARNESSES.append(typed(H, 'c07_cbfail_T_SetOf_fixed%d_der' % nfix, 'typed/enc_contract.c', 'T_SetOf', 'der',
                           defines=['-DMODE_CBFAIL', '-DSYNTAX=ATS_DER', '-DSYNTAX_IS=0', '-DSETOF_FIXED=%d' % nfix],
                           exclude=EXM['MODE_CBFAIL'] + '|_oer|_uper|_aper',
                           functions=['asn_encode/der on T-SetOf (SET_OF_encode_der with its sorted element buffers)'],
                           inputs='fixed value %s, callback failure index -1..8 symbolic' % ('{65535}' if nfix == 1 else '{65535, 3}')))
