import sys, os
sys.path.insert(0, os.path.join(VERIF, 'harness'))
from typed_common import *
HARNESSES = []
Q = ['T_Seq', 'T_SeqX', 'T_Cho', 'T_SeqOf', 'T_Oct', 'T_Int']
for t, k in combos():
    if k == 'uper':
        continue      # PER decoding is documented as not restartable
    tiers = ('quick', 'thorough') if t in Q else ('thorough',)
    HARNESSES.append(typed(H, 'chunk2_%s_%s' % (t, k), 'typed/dec_chunked.c', t, k, tiers=tiers, leak=True,
                           functions=['%s decoder of %s, two calls' % (k, t)],
                           inputs='value of %s, split point k in 0..len-1' % t, bounds='every 2-chunk split'))
    if t in Q:
        HARNESSES.append(typed(H, 'chunk3_%s_%s' % (t, k), 'typed/dec_chunked.c', t, k, tiers=('thorough',), leak=True, defines=['-DTHREE'],
                               functions=['%s decoder of %s, three calls' % (k, t)],
                               inputs='value of %s, split points k <= k2 < len' % t, bounds='every 3-chunk schedule'))
