import sys, os
sys.path.insert(0, os.path.join(VERIF, 'harness'))
from typed_common import *
HARNESSES = []
Q = ['T_Seq', 'T_SeqX', 'T_Cho', 'T_SeqOf', 'T_Oct', 'T_Int']
for t, k in combos():
    if k == 'uper':
        continue      # PER decoding is documented as not restartable
    tiers = ('quick', 'thorough') if t in Q else ('thorough',)
    HARNESSES.append(typed(H, 'chunk2_%s_%s' % (t, k), 'typed/dec_chunked.c', t, k, tiers=tiers, leak=True,
                           functions=['%s decoder of %s, two calls' % (k, t)],
                           inputs='value of %s, split point k in 0..len-1' % t, bounds='every 2-chunk split'))
    if t in Q:
        HARNESSES.append(typed(H, 'chunk3_%s_%s' % (t, k), 'typed/dec_chunked.c', t, k, tiers=('thorough',), leak=True, defines=['-DTHREE'],
                               functions=['%s decoder of %s, three calls' % (k, t)],
                               inputs='value of %s, split points k <= k2 < len' % t, bounds='every 3-chunk schedule'))

# T-Seq / T-SeqX: with a symbolic split point the solver needs > 240 s; the split point is enumerated instead
# (every k that can be a proper prefix of some value's encoding), values and presence flags stay symbolic
for t, k, kmax in (('T_Seq', 'der', 12), ('T_Seq', 'oer', 1), ('T_SeqX', 'der', 12)):
    for kk in range(0, kmax + 1):
        HARNESSES.append(typed(H, 'chunkk_%s_%s_k%d' % (t, k, kk), 'typed/dec_chunked.c', t, k, leak=True, defines=['-DFIXED_K=%d' % kk],
                               tiers=('quick', 'thorough') if t == 'T_Seq' else ('thorough',),
                               functions=['%s decoder of %s, two calls' % (k, t)],
                               inputs='value of %s (symbolic), split after %d octets' % (t, kk), bounds='split point enumerated'))
