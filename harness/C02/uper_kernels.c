/* C02/C01 Layer K: the UPER building blocks against the X.691 reference, all arguments symbolic.
 * -DK_NSNNWN | -DK_LENGTH | -DK_NSLENGTH | -DK_CWN | -DK_FEWBITS */
#include "verif.h"
#include "ref_enc.h"
#include <asn_internal.h>
#include <per_support.h>
struct inputs { uint32_t n; uint64_t v; uint8_t nbits; uint32_t w1, w2; uint8_t b1, b2; uint8_t pre; };
#include "verif_in.h"

static struct sink S;
static void po_init(asn_per_outp_t *po) {
    memset(po, 0, sizeof(*po));
    po->buffer = po->tmpspace; po->nboff = 0; po->nbits = 8 * sizeof(po->tmpspace);
    po->output = sink_cb; po->op_key = &S; po->flushed_bytes = 0;
    sink_init(&S);
}
static void pd_init(asn_per_data_t *pd, const uint8_t *buf, size_t nbits) {
    memset(pd, 0, sizeof(*pd)); pd->buffer = buf; pd->nboff = 0; pd->nbits = nbits;
}
static void expect_bytes(const struct bitw *w, const uint8_t *ref) {
    size_t nb = (w->nbits + 7) / 8;
    CHECK(S.len == nb, "number of octets flushed equals the reference");
    if(S.len == nb) for(size_t i = 0; i < 16; i++) if(i < nb) CHECK(S.buf[i] == ref[i], "bits equal the X.691 reference");
}

void harness(void) {
    VERIF_INPUTS();
    asn_per_outp_t po; po_init(&po);
    uint8_t ref[16]; memset(ref, 0, sizeof(ref));
    struct bitw w = { ref, 0, sizeof(ref) };
    asn_per_data_t pd;
#if defined(K_NSNNWN)
    ASSUME(in.n < (1u << 24));
    int r = uper_put_nsnnwn(&po, (int)in.n);
    CHECK(r == 0, "uper_put_nsnnwn succeeds below 2^24");
    CHECK(asn_put_aligned_flush(&po) == 0, "flush");
    uper_nsnnwn(&w, in.n);
    while(w.nbits & 7) bw_bit(&w, 0);
    expect_bytes(&w, ref);
    pd_init(&pd, S.buf, 8 * S.len);
    CHECK(uper_get_nsnnwn(&pd) == (ssize_t)in.n, "uper_get_nsnnwn reads it back");
#elif defined(K_LENGTH)
    ASSUME(in.n < 16384);
    int eom = -1;
    ssize_t r = uper_put_length(&po, in.n, &eom);
    CHECK(r == (ssize_t)in.n && eom == 0, "uper_put_length covers the whole length below 16K");
    CHECK(asn_put_aligned_flush(&po) == 0, "flush");
    uper_length(&w, in.n);
    expect_bytes(&w, ref);
    pd_init(&pd, S.buf, 8 * S.len);
    int rep = -1;
    CHECK(uper_get_length(&pd, -1, 0, &rep) == (ssize_t)in.n && rep == 0, "uper_get_length reads it back");
#elif defined(K_FRAG)
    /* 16K and above: fragmentation marker 11000mmm, m = min(4, n / 16384) */
    ASSUME(in.n >= 16384 && in.n < (1u << 22));
    int eom = -1;
    ssize_t r = uper_put_length(&po, in.n, &eom);
    unsigned m = in.n / 16384; if(m > 4) m = 4;
    CHECK(r == (ssize_t)(m * 16384), "first fragment carries m*16K items");
    CHECK(eom == (in.n % 16384 == 0 && in.n / 16384 <= 4), "end-of-message (zero length) needed exactly when the fragment exhausts the length");
    CHECK(asn_put_aligned_flush(&po) == 0, "flush");
    CHECK(S.len == 1 && S.buf[0] == (0xC0 | m), "fragment marker octet");
#elif defined(K_NSLENGTH)
    ASSUME(in.n >= 1 && in.n <= 64);
    CHECK(uper_put_nslength(&po, in.n) == 0, "uper_put_nslength succeeds for 1..64");
    CHECK(asn_put_aligned_flush(&po) == 0, "flush");
    uper_nsnnwn(&w, in.n - 1);           /* X.691 10.9.3.4: n-1 as a normally small number */
    while(w.nbits & 7) bw_bit(&w, 0);
    expect_bytes(&w, ref);
    pd_init(&pd, S.buf, 8 * S.len);
    CHECK(uper_get_nslength(&pd) == (ssize_t)in.n, "uper_get_nslength reads it back");
#elif defined(K_CWN)
    ASSUME(in.nbits >= 1 && in.nbits <= 64);
    if(in.nbits < 64) ASSUME(in.v < (1ULL << in.nbits));
    ASSUME(in.pre <= 7);
    CHECK(per_put_few_bits(&po, 0, in.pre) == 0, "prefix bits");
    CHECK(uper_put_constrained_whole_number_u(&po, in.v, in.nbits) == 0, "put constrained whole number");
    CHECK(asn_put_aligned_flush(&po) == 0, "flush");
    bw_bits(&w, 0, in.pre); bw_bits(&w, in.v, in.nbits);
    while(w.nbits & 7) bw_bit(&w, 0);
    expect_bytes(&w, ref);
    pd_init(&pd, S.buf, 8 * S.len);
    unsigned long back = 0;
    CHECK(per_get_few_bits(&pd, in.pre) == 0, "prefix read");
    CHECK(uper_get_constrained_whole_number(&pd, &back, in.nbits) == 0 && back == in.v, "get constrained whole number reads it back");
#elif defined(K_FEWBITS)
    ASSUME(in.b1 <= 31 && in.b2 <= 31 && in.pre <= 7);
    ASSUME(in.b1 == 31 || in.w1 < (1u << in.b1)); ASSUME(in.b2 == 31 || in.w2 < (1u << in.b2));
    ASSUME(in.w1 < (1u << 31) && in.w2 < (1u << 31));
    CHECK(per_put_few_bits(&po, 0x7f, in.pre) == 0 && per_put_few_bits(&po, in.w1, in.b1) == 0 && per_put_few_bits(&po, in.w2, in.b2) == 0, "put three fields");
    CHECK(asn_put_aligned_flush(&po) == 0, "flush");
    bw_bits(&w, 0x7f, in.pre); bw_bits(&w, in.w1, in.b1); bw_bits(&w, in.w2, in.b2);
    while(w.nbits & 7) bw_bit(&w, 0);
    expect_bytes(&w, ref);
    pd_init(&pd, S.buf, 8 * S.len);
    CHECK(per_get_few_bits(&pd, in.pre) == (int32_t)(0x7f & ((1u << in.pre) - 1)), "prefix read back");
    CHECK(per_get_few_bits(&pd, in.b1) == (int32_t)in.w1 && per_get_few_bits(&pd, in.b2) == (int32_t)in.w2, "fields read back");
#endif
    WITNESS();
}
