import sys, os
sys.path.insert(0, os.path.join(VERIF, 'harness'))
from typed_common import *
HARNESSES = []
for t in ['T_Seq']:
    for k in SY:
        HARNESSES.append(typed(H, 'enc_%s_%s' % (t, k), 'typed/enc_exact.c', t, k,
                               functions=['%s encoder on %s' % (k, t)], inputs='abstract value of %s (all fields symbolic)' % t))
