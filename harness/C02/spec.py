import sys, os
sys.path.insert(0, os.path.join(VERIF, 'harness'))
from typed_common import *
HARNESSES = []
for t, k in combos():
    # T_IntSemi/oer is quick since seed C02-oer-semiconstrained-guard-octet (variable-size unsigned form)
    tiers = ('quick', 'thorough') if t in QUICK_TYPES or (t, k) == ('T_IntSemi', 'oer') else ('thorough',)
    hb = ['-DINT_HARNESS_BOUND=8388607LL'] if (t, k) in HEAVY else []
    HARNESSES.append(typed(H, 'enc_%s_%s' % (t, k), 'typed/enc_exact.c', t, k, tiers=tiers, defines=hb, bounds=('|v| < 2^23 (unconstrained-length UPER integer)' if hb else ''),
                           functions=['%s codec on %s' % (k, t)], inputs='abstract value of %s (all fields symbolic)' % t))

# semi-constrained UPER integer at type level (X.691 10.7), value range bounded hard: the query takes ~20 minutes even
# for v <= 300 (value-dependent bit offsets plus the heap INTEGER_t temporary of NativeInteger_encode_uper), so it is
# thorough-only. It carries the known finding KF-UPER-SEMICONSTRAINED-TWOS-COMPLEMENT.
HARNESSES.append(typed(H, 'enc_T_IntSemi_uper', 'typed/enc_exact.c', 'T_IntSemi', 'uper', tiers=('thorough',),
                       defines=['-DINT_HARNESS_BOUND=300LL'], bounds='0 <= v <= 300', maxdeepen=2400, timeout=2400,
                       functions=['NativeInteger_encode_uper / INTEGER_encode_uper on T-IntSemi ::= INTEGER (0..MAX)'],
                       inputs='abstract value of T_IntSemi, 0 <= v <= 300'))

# Layer K: UPER building blocks with all arguments symbolic (covers the variable-length parts that are
# too costly at type level)
PK = ['skeletons/per_support.c', 'skeletons/asn_bit_data.c']
for k, inp in (('K_NSNNWN', 'n < 2^24'), ('K_LENGTH', 'length < 16384'), ('K_FRAG', '16384 <= length < 2^22'), ('K_NSLENGTH', '1..64'),
               ('K_CWN', 'value of 1..64 bits after a 0..7 bit prefix'), ('K_FEWBITS', 'three consecutive fields of 0..7, 0..31, 0..31 bits')):
    HARNESSES.append(H('uperk_%s' % k[2:].lower(), 'C02/uper_kernels.c', sources=PK, defines=['-D' + k], exclude=r'xer|_print',
                       functions=['uper_put/get_%s' % k[2:].lower(), 'asn_put_few_bits', 'asn_get_few_bits', 'asn_put_aligned_flush'],
                       inputs=inp, bounds='none beyond the stated argument range'))

