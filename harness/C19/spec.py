import sys, os
sys.path.insert(0, os.path.join(VERIF, 'harness'))
from typed_common import *
HARNESSES = []
Q = {('T_SeqX1', 'oer'), ('T_Seq', 'der'), ('T_Seq', 'oer'), ('T_Seq', 'uper'), ('T_SeqOf', 'der'), ('T_Cho', 'oer'), ('T_Oct', 'der'), ('T_SetOf', 'der'), ('T_Enum', 'der')}
for t in ['T_Seq', 'T_SeqX1', 'T_SeqOf', 'T_Cho', 'T_Oct', 'T_SetOf', 'T_Enum', 'T_Bits', 'T_Int8']:
    for k in ('der', 'oer', 'uper'):
        if (k == 'uper' and t in UPER_TOO_COSTLY) or (k == 'oer' and t in OER_TOO_COSTLY):
            continue
        for ops, what in (('OPS_ENC', 'validate + encode'), ('OPS_DEC', 'decode arbitrary octets + decode valid encoding + free'), ('OPS_SEQ', 'encode / unrelated calls / encode again')):
            HARNESSES.append(typed(H, 'reent_%s_%s_%s' % (ops[4:].lower(), t, k), 'typed/reentrancy.c', t, k, snapshot=True, defines=['-D' + ops],
                                   tiers=('quick', 'thorough') if (t, k) in Q else ('thorough',),
                                   functions=['%s: %s of %s' % (k, what, t)],
                                   inputs='two values, 4 arbitrary octets; snapshot of every mutable file-scope static object of the linked units'))
ASSUMPTIONS = ['reduction: no write to static storage => calls on distinct structures are race-free and independent (malloc/errno thread-safety is libc\'s contract)',
               'a write that stores the value already present, or write-then-restore within one call, is invisible to a snapshot',
               'function-local static objects cannot be named from C and are not snapshotted: they are listed in the evidence']
OUTSIDE = ['real thread schedules', 'XER and print_struct', 'asn_random_fill and debug helpers (excluded by the property)']
