import sys, os
sys.path.insert(0, os.path.join(VERIF, 'harness'))
from typed_common import *
# Every option set must give exactly the reference bytes (so any two option sets give identical bytes)
# and decode the reference bytes to the value (so they decode each other's output).
OPTS = {
 # -fno-constraints together with -gen-PER/-gen-OER makes asn1c emit references to constraint tables it does not
 # emit (the generated C does not compile: a C10 matter, see DESIGN.md), so it is checked for BER/DER only
 'noconstr': (['-fno-constraints'], [], ['T_Seq', 'T_Cho', 'T_SeqOf', 'T_Oct', 'T_IntR'], ('der',)),
 'quoted': (['-fincludes-quoted'], [], ['T_Seq', 'T_Cho'], ('der', 'oer', 'uper')),
 'nodeps': (['-fno-include-deps'], [], ['T_Seq', 'T_SeqOf'], ('der', 'oer', 'uper')),
 'compound': (['-fcompound-names'], [], ['T_Seq', 'T_Cho', 'T_SeqOf', 'T_ChoC'], ('der', 'oer', 'uper')),
 'wide': (['-fwide-types'], ['-DINT_WIDE'], ['T_Int', 'T_IntSemi', 'T_IntNeg'], ('der', 'oer')),
 'widec': (['-fwide-types'], [], ['T_Int8', 'T_IntR', 'T_Seq'], ('der', 'oer', 'uper')),
 'indirect': (['-findirect-choice'], ['-DINDIRECT_CHOICE'], ['T_ChoC'], ('der', 'oer')),
 'direct': ([], [], ['T_ChoC'], ('der', 'oer')),
 'combo': (['-fcompound-names', '-fno-constraints', '-fincludes-quoted'], [], ['T_Seq', 'T_Cho'], ('der',)),
}
Q = {('noconstr', 'T_Seq'), ('wide', 'T_Int'), ('wide', 'T_IntSemi'), ('widec', 'T_Int8'), ('indirect', 'T_ChoC'), ('direct', 'T_ChoC'), ('compound', 'T_Cho'), ('combo', 'T_Seq'), ('nodeps', 'T_SeqOf')}
HARNESSES = []
for on, (opts, defs, types, ks) in OPTS.items():
    for t in types:
        for k in ks:
            if (k == 'uper' and t in UPER_TOO_COSTLY) or (k == 'oer' and t in OER_TOO_COSTLY):
                continue
            for kind, src in (('enc', 'typed/enc_exact.c'), ('dec', 'typed/dec_exact.c')):
                d2 = defs + (['-DCOMPOUND_NAMES'] if on == 'compound' and t == 'T_ChoC' else [])
                h = typed(H, 'opt_%s_%s_%s_%s' % (on, kind, t, k), src, t, k, defines=d2,
                          tiers=('quick', 'thorough') if (on, t) in Q and k != 'uper' else ('thorough',),
                          functions=['%s %s of %s generated with %s' % (k, 'encoder' if kind == 'enc' else 'decoder', t, ' '.join(opts))],
                          inputs='every value of %s' % t, bounds='option set fixed per query')
                if 'noconstr' in on or on == 'combo':
                    # no PER/OER at all: the generated Makefile would pass these defines
                    dis = ['-DASN_DISABLE_OER_SUPPORT', '-DASN_DISABLE_PER_SUPPORT']
                    h.gen = dict(h.gen, opts=['-no-gen-PER', '-no-gen-OER'] + opts, cflags=dis)
                    h.defines += dis
                    h.src_defines += dis
                else:
                    h.gen = dict(h.gen, opts=h.gen['opts'] + opts)
                if kind == 'dec' and t == 'T_ChoC':
                    h.tiers = ('thorough',)      # deepening of the nested CHOICE/SEQUENCE decoder exceeds the quick budget
                HARNESSES.append(h)
# disabling an unused codec
for t in ('T_Seq', 'T_Cho'):
    for off, ks in (('-no-gen-OER', ('der', 'uper')), ('-no-gen-PER', ('der', 'oer'))):
        for k in ks:
            if k == 'uper' and t in UPER_TOO_COSTLY:
                continue
            h = typed(H, 'opt_%s_enc_%s_%s' % (off[1:].replace('-', ''), t, k), 'typed/enc_exact.c', t, k, tiers=('thorough',),
                      functions=['%s encoder of %s generated with %s' % (k, t, off)], inputs='every value of %s' % t)
            h.gen = dict(h.gen, opts=[o for o in h.gen['opts'] if o != off.replace('-no-', '-')] + [off])
            dis = ['-DASN_DISABLE_OER_SUPPORT'] if 'OER' in off else ['-DASN_DISABLE_PER_SUPPORT']
            h.gen['cflags'] = dis
            h.defines += dis
            h.src_defines += dis
            HARNESSES.append(h)
ASSUMPTIONS = ['two option sets agree with each other because each agrees with the same option-independent reference encoder']
OUTSIDE = ['-funnamed-unions', 'values representable only under -fwide-types (beyond long)', 'XER']
