import sys, os
sys.path.insert(0, os.path.join(VERIF, 'harness'))
from typed_common import *
# Every option set must give exactly the reference bytes (so any two option sets give identical bytes)
# and decode the reference bytes to the value (so they decode each other's output).
OPTS = {
 'noconstr': (['-fno-constraints'], [], ['T_Seq', 'T_Cho', 'T_SeqOf', 'T_Oct', 'T_IntR']),
 'quoted': (['-fincludes-quoted'], [], ['T_Seq', 'T_Cho']),
 'nodeps': (['-fno-include-deps'], [], ['T_Seq', 'T_SeqOf']),
 'compound': (['-fcompound-names'], [], ['T_Seq', 'T_Cho', 'T_SeqOf']),
 'wide': (['-fwide-types'], ['-DINT_WIDE'], ['T_Int8', 'T_IntR', 'T_Int16', 'T_IntU32']),
 'indirect': (['-findirect-choice'], ['-DINDIRECT_CHOICE'], ['T_Cho']),
 'combo': (['-fcompound-names', '-fno-constraints', '-fincludes-quoted'], [], ['T_Seq', 'T_Cho']),
}
Q = {('noconstr', 'T_Seq'), ('wide', 'T_IntR'), ('wide', 'T_Int8'), ('indirect', 'T_Cho'), ('compound', 'T_Cho'), ('combo', 'T_Seq'), ('nodeps', 'T_SeqOf')}
HARNESSES = []
for on, (opts, defs, types) in OPTS.items():
    for t in types:
        for k in ('der', 'oer', 'uper'):
            if (k == 'uper' and t in UPER_TOO_COSTLY) or (k == 'oer' and t in OER_TOO_COSTLY):
                continue
            for kind, src in (('enc', 'typed/enc_exact.c'), ('dec', 'typed/dec_exact.c')):
                h = typed(H, 'opt_%s_%s_%s_%s' % (on, kind, t, k), src, t, k, defines=defs,
                          tiers=('quick', 'thorough') if (on, t) in Q and k != 'uper' else ('thorough',),
                          functions=['%s %s of %s generated with %s' % (k, 'encoder' if kind == 'enc' else 'decoder', t, ' '.join(opts))],
                          inputs='every value of %s' % t, bounds='option set fixed per query')
                h.gen = dict(h.gen, opts=h.gen['opts'] + opts)
                HARNESSES.append(h)
# disabling an unused codec
for t in ('T_Seq', 'T_Cho'):
    for off, ks in (('-no-gen-OER', ('der', 'uper')), ('-no-gen-PER', ('der', 'oer'))):
        for k in ks:
            if k == 'uper' and t in UPER_TOO_COSTLY:
                continue
            h = typed(H, 'opt_%s_enc_%s_%s' % (off[1:].replace('-', ''), t, k), 'typed/enc_exact.c', t, k, tiers=('thorough',),
                      functions=['%s encoder of %s generated with %s' % (k, t, off)], inputs='every value of %s' % t)
            h.gen = dict(h.gen, opts=[o for o in h.gen['opts'] if o != off.replace('-no-', '-')] + [off])
            HARNESSES.append(h)
ASSUMPTIONS = ['two option sets agree with each other because each agrees with the same option-independent reference encoder']
OUTSIDE = ['-funnamed-unions', 'values representable only under -fwide-types (beyond long)', 'XER']
