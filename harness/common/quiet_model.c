/* Diagnostics of the compiler libraries have empty bodies (formatting is not the subject). */
#include <stdarg.h>
#include <stdio.h>
int vfprintf(FILE *f, const char *fmt, va_list ap) { (void)f; (void)fmt; (void)ap; return 0; }
int fprintf(FILE *f, const char *fmt, ...) { (void)f; (void)fmt; return 0; }
