/* Model of vsnprintf/snprintf for the conversion subset used by asn1c skeletons. */
#include <stdarg.h>
#include <stddef.h>
#include <stdint.h>
#include <string.h>
static size_t emit(char *buf, size_t size, size_t pos, char c) { if(pos + 1 < size) buf[pos] = c; return pos + 1; }
static size_t emit_u(char *buf, size_t size, size_t pos, unsigned long long v, int width, char pad, int neg, int plus, int base) {
  char tmp[24]; int n = 0;
  do { unsigned d = v % base; tmp[n++] = d < 10 ? '0' + d : 'a' + d - 10; v /= base; } while(v);
  int len = n + (neg || plus);
  if(pad == ' ') for(int i = len; i < width; i++) pos = emit(buf, size, pos, ' ');
  if(neg) pos = emit(buf, size, pos, '-'); else if(plus) pos = emit(buf, size, pos, '+');
  if(pad == '0') for(int i = len; i < width; i++) pos = emit(buf, size, pos, '0');
  while(n) pos = emit(buf, size, pos, tmp[--n]);
  return pos;
}
int vsnprintf(char *buf, size_t size, const char *fmt, va_list ap) {
  size_t pos = 0;
  for(; *fmt; fmt++) {
    if(*fmt != '%') { pos = emit(buf, size, pos, *fmt); continue; }
    fmt++;
    int plus = 0, width = 0, lng = 0; char pad = ' ';
    for(;; fmt++) { if(*fmt == '+') plus = 1; else if(*fmt == '0') pad = '0'; else if(*fmt == ' ') ; else break; }
    while(*fmt >= '0' && *fmt <= '9') width = width * 10 + (*fmt++ - '0');
    for(;; fmt++) { if(*fmt == 'l') lng++; else if(*fmt == 'j' || *fmt == 'z' || *fmt == 't') lng = 2; else break; }
    switch(*fmt) {
    case '%': pos = emit(buf, size, pos, '%'); break;
    case 'c': pos = emit(buf, size, pos, (char)va_arg(ap, int)); break;
    case 's': { const char *s = va_arg(ap, const char *); while(*s) pos = emit(buf, size, pos, *s++); break; }
    case 'd': case 'i': { long long v = lng >= 1 ? (lng == 1 ? va_arg(ap, long) : va_arg(ap, long long)) : va_arg(ap, int);
        unsigned long long u = v < 0 ? 0ULL - (unsigned long long)v : (unsigned long long)v;
        pos = emit_u(buf, size, pos, u, width, pad, v < 0, plus, 10); break; }
    case 'u': { unsigned long long u = lng >= 1 ? (lng == 1 ? va_arg(ap, unsigned long) : va_arg(ap, unsigned long long)) : va_arg(ap, unsigned);
        pos = emit_u(buf, size, pos, u, width, pad, 0, 0, 10); break; }
    case 'x': { unsigned long long u = lng >= 1 ? (lng == 1 ? va_arg(ap, unsigned long) : va_arg(ap, unsigned long long)) : va_arg(ap, unsigned);
        pos = emit_u(buf, size, pos, u, width, pad, 0, 0, 16); break; }
    default: __CPROVER_assert(0, "printf model: unsupported conversion"); break;
    }
  }
  if(size) buf[pos < size ? pos : size - 1] = 0;
  return (int)pos;
}
int snprintf(char *buf, size_t size, const char *fmt, ...) { va_list ap; va_start(ap, fmt); int r = vsnprintf(buf, size, fmt, ap); va_end(ap); return r; }
