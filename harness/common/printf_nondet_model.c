/* vsnprintf under its C99 contract only: returns an arbitrary int (harness-supplied), writes at most `size`
 * bytes, NUL-terminated when size > 0 and the return value is non-negative. Used to check the clamp logic of
 * _asn_i_ctfailcb against ANY libc (C08). In native replay the same stub is linked. */
#include <stdarg.h>
#include <stddef.h>
int verif_vsnprintf_ret = 0;
unsigned char verif_vsnprintf_fill = 'x';
int vsnprintf(char *buf, size_t size, const char *fmt, va_list ap) {
    (void)fmt; (void)ap;
    int r = verif_vsnprintf_ret;
    if(size > 0 && r >= 0) {
        size_t n = (size_t)r < size - 1 ? (size_t)r : size - 1;
        for(size_t i = 0; i < n; i++) buf[i] = (char)verif_vsnprintf_fill;
        buf[n] = 0;
    }
    return r;
}
