/*
 * Bit-level models of the libm functions the skeletons call and for which
 * CBMC 6.11 ships no body. IEEE-754 binary64 is assumed (as REAL.c does).
 * Validated against glibc by bin/setup (differential test on boundary values).
 */
#include <stdint.h>
#include <limits.h>
#include <string.h>

static uint64_t verif_dbits(double d) { uint64_t u; memcpy(&u, &d, 8); return u; }

/* glibc: FP_ILOGB0 = INT_MIN, FP_ILOGBNAN = INT_MIN, ilogb(inf) = INT_MAX */
int ilogb(double d) {
    uint64_t u = verif_dbits(d);
    int e = (int)((u >> 52) & 0x7ff);
    uint64_t m = u & 0xfffffffffffffULL;
    if(e == 0x7ff) return m ? INT_MIN : INT_MAX;
    if(e == 0) {
        if(m == 0) return INT_MIN;
        int k = -1023;
        /* position of the leading one of the subnormal mantissa */
        for(int i = 51; i >= 0; i--) {
            if((m >> i) & 1) return -1022 - (52 - i);
        }
        return k;
    }
    return e - 1023;
}

int __builtin_isfinite(double d) {
    return ((verif_dbits(d) >> 52) & 0x7ff) != 0x7ff;
}
int __finite(double d) { return __builtin_isfinite(d); }
int finite(double d) { return __builtin_isfinite(d); }

/* ldexp(x, n): x * 2^n, correctly rounded (round-to-nearest-even), integer-only model */
double ldexp(double x, int n) {
    uint64_t u = verif_dbits(x);
    int e = (int)((u >> 52) & 0x7ff);
    uint64_t m = u & 0xfffffffffffffULL;
    uint64_t s = u & 0x8000000000000000ULL;
    uint64_t r;
    double res;
    if(e == 0x7ff || (e == 0 && m == 0)) return x;
    long long E;
    if(e == 0) {
        int sh = 0;
        if(!(m & 0x1fffffffe00000ULL)) { m <<= 32; sh += 32; }
        if(!(m & 0x1fffe000000000ULL)) { m <<= 16; sh += 16; }
        if(!(m & 0x1fe00000000000ULL)) { m <<= 8; sh += 8; }
        if(!(m & 0x1e000000000000ULL)) { m <<= 4; sh += 4; }
        if(!(m & 0x18000000000000ULL)) { m <<= 2; sh += 2; }
        if(!(m & 0x10000000000000ULL)) { m <<= 1; sh += 1; }
        E = -1022 - sh;
    } else {
        m |= 1ULL << 52;
        E = e - 1023;
    }
    long long ne = E + (long long)n;
    if(ne > 1023) {
        r = s | 0x7ff0000000000000ULL;
    } else if(ne >= -1022) {
        r = s | ((uint64_t)(ne + 1023) << 52) | (m & 0xfffffffffffffULL);
    } else {
        long long k = -1022 - ne;
        if(k > 54) {
            r = s;
        } else {
            uint64_t q = m >> k, rem = m & ((1ULL << k) - 1), half = 1ULL << (k - 1);
            if(rem > half || (rem == half && (q & 1))) q++;
            r = s | q;
        }
    }
    memcpy(&res, &r, 8);
    return res;
}
