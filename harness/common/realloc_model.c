/* realloc model with an explicit, word-wise copy (CBMC's built-in model copies an array of symbolic size,
 * which costs minutes of array post-processing). Same contract as realloc(3); never fails. */
#include <stdlib.h>
#include <stdint.h>
void *realloc(void *p, size_t n) {
    if(n == 0) { free(p); return malloc(1); }
    char *q = (char *)malloc(n);
    __CPROVER_assume(q != 0);
    if(p) {
        size_t old = __CPROVER_OBJECT_SIZE(p);
        size_t m = old < n ? old : n;
        if((old & 7) == 0 && (n & 7) == 0) {
            for(size_t i = 0; i < m / 8; i++) ((uint64_t *)q)[i] = ((uint64_t *)p)[i];
        } else {
            for(size_t i = 0; i < m; i++) q[i] = ((char *)p)[i];
        }
        free(p);
    }
    return q;
}
