/* An input buffer as an EXACT-size heap object (so that any read past `size` is a CBMC bounds violation) without
 * a symbolic allocation size (a malloc of symbolic size made the formula 15x larger): one concrete-size object
 * per possible size, selected by a switch. NMAX <= 8. */
#ifndef EXACT_BUF_H
#define EXACT_BUF_H
#include <stdlib.h>
static uint8_t *exact_copy(const uint8_t *src, size_t n) {
    uint8_t *p = 0;
    switch(n) {
#define EB_CASE(k) case k: p = (uint8_t *)malloc(k ? k : 1); __CPROVER_assume(p != 0); for(size_t i = 0; i < k; i++) p[i] = src[i]; break;
    EB_CASE(0) EB_CASE(1) EB_CASE(2) EB_CASE(3) EB_CASE(4) EB_CASE(5) EB_CASE(6) EB_CASE(7) EB_CASE(8)
    EB_CASE(9) EB_CASE(10) EB_CASE(11) EB_CASE(12) EB_CASE(13) EB_CASE(14) EB_CASE(15) EB_CASE(16)
    EB_CASE(17) EB_CASE(18) EB_CASE(19) EB_CASE(20) EB_CASE(21) EB_CASE(22) EB_CASE(23) EB_CASE(24)
    EB_CASE(25) EB_CASE(26) EB_CASE(27) EB_CASE(28) EB_CASE(29) EB_CASE(30) EB_CASE(31) EB_CASE(32) EB_CASE(33) EB_CASE(34) EB_CASE(35) EB_CASE(36) EB_CASE(37) EB_CASE(38) EB_CASE(39) EB_CASE(40)
#undef EB_CASE
    default: __CPROVER_assume(0);
    }
    return p;
}
#endif
