/* Models of qsort/bsearch (CBMC has no bodies): insertion sort / linear scan that call the REAL comparator.
 * Any permutation-sorting algorithm yields the same result up to the order of equal elements. */
#include <stddef.h>
#include <string.h>
void qsort(void *base, size_t n, size_t size, int (*cmp)(const void *, const void *)) {
    char *b = (char *)base;
    char tmp[64];
    __CPROVER_assert(size <= sizeof(tmp), "sort model: element size <= 64");
    for(size_t i = 1; i < n; i++) {
        for(size_t j = i; j > 0; j--) {
            if(cmp(b + (j - 1) * size, b + j * size) <= 0) break;
            memcpy(tmp, b + (j - 1) * size, size);
            memcpy(b + (j - 1) * size, b + j * size, size);
            memcpy(b + j * size, tmp, size);
        }
    }
}
void *bsearch(const void *key, const void *base, size_t n, size_t size, int (*cmp)(const void *, const void *)) {
    const char *b = (const char *)base;
    for(size_t i = 0; i < n; i++)
        if(cmp(key, b + i * size) == 0) return (void *)(b + i * size);
    return 0;
}
