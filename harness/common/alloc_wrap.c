/* Allocation wrappers: the k-th allocation (malloc/calloc/realloc growth) fails, k symbolic.
 * Skeleton sources are compiled with -Dmalloc=verif_malloc ... so that /repo is untouched.
 * Also records request sizes for the heap-bound property (C15). */
#include <stdlib.h>
#include <string.h>
#include <stdint.h>
#ifndef __CPROVER__
#define __CPROVER_assume(c) ((void)0)
#endif
int verif_alloc_fail_at = -1;    /* index of the allocation that fails; <0: none */
int verif_alloc_count = 0;       /* allocations attempted so far */
size_t verif_alloc_max_request = 0;
size_t verif_alloc_total = 0;
static int verif_should_fail(size_t n) {
    if(n > verif_alloc_max_request) verif_alloc_max_request = n;
    verif_alloc_total += n;
    return verif_alloc_count++ == verif_alloc_fail_at;
}
/* With -DVERIF_ALLOC_ROUND (lifecycle harnesses: leaks / double frees, not bounds) requests are served from
 * concrete size classes, because a heap object of SYMBOLIC size costs CBMC gigabytes. Requests above 256 octets
 * are outside those harnesses (assumed away; the heap-bound harnesses of C15 do not use this mode). */
#ifdef VERIF_ALLOC_ROUND
static void *verif_raw(size_t n) {
    if(n <= 8) return malloc(8);
    if(n <= 16) return malloc(16);
    if(n <= 32) return malloc(32);
    if(n <= 64) return malloc(64);
    if(n <= 128) return malloc(128);
    __CPROVER_assume(n <= 256);
    return malloc(256);
}
static void *verif_raw_zero(size_t n) {   /* zero-filled, concrete size (no memset of symbolic length) */
    if(n <= 8) return calloc(1, 8);
    if(n <= 16) return calloc(1, 16);
    if(n <= 32) return calloc(1, 32);
    if(n <= 64) return calloc(1, 64);
    if(n <= 128) return calloc(1, 128);
    __CPROVER_assume(n <= 256);
    return calloc(1, 256);
}
#else
#define verif_raw(n) malloc(n)
#endif
void *verif_malloc(size_t n) { if(verif_should_fail(n)) return 0; return verif_raw(n); }
void *verif_calloc(size_t a, size_t b) {
    if(verif_should_fail(a * b)) return 0;
#ifdef VERIF_ALLOC_ROUND
    return verif_raw_zero(a * b);
#else
    void *p = verif_raw(a * b);
    if(p) memset(p, 0, a * b);
    return p;
#endif
}
void *verif_realloc(void *p, size_t n) {
    if(verif_should_fail(n)) return 0;
#if defined(VERIF_ALLOC_ROUND) && defined(__CPROVER__)
    char *q = (char *)verif_raw(n ? n : 1);
    if(p) {
        size_t old = __CPROVER_OBJECT_SIZE(p);
        size_t m = old < n ? old : n;
        for(size_t i = 0; i < m; i++) q[i] = ((char *)p)[i];
        free(p);
    }
    return q;
#else
    return realloc(p, n);
#endif
}
void verif_free(void *p) { free(p); }
