/* Allocation wrappers: the k-th allocation (malloc/calloc/realloc growth) fails, k symbolic.
 * Skeleton sources are compiled with -Dmalloc=verif_malloc ... so that /repo is untouched.
 * Also records request sizes for the heap-bound property (C15). */
#include <stdlib.h>
#include <string.h>
#include <stdint.h>
int verif_alloc_fail_at = -1;    /* index of the allocation that fails; <0: none */
int verif_alloc_count = 0;       /* allocations attempted so far */
size_t verif_alloc_max_request = 0;
size_t verif_alloc_total = 0;
static int verif_should_fail(size_t n) {
    if(n > verif_alloc_max_request) verif_alloc_max_request = n;
    verif_alloc_total += n;
    return verif_alloc_count++ == verif_alloc_fail_at;
}
void *verif_malloc(size_t n) { if(verif_should_fail(n)) return 0; return malloc(n); }
void *verif_calloc(size_t a, size_t b) {
    if(verif_should_fail(a * b)) return 0;
    void *p = malloc(a * b);
    if(p) memset(p, 0, a * b);
    return p;
}
void *verif_realloc(void *p, size_t n) { if(verif_should_fail(n)) return 0; return realloc(p, n); }
void verif_free(void *p) { free(p); }
