/* memcpy as an explicit byte loop (CBMC's built-in model copies through arrays of symbolic size, which the
 * propositional array theory cannot digest when size and offset are both symbolic, e.g. constr_SET_OF.c:_el_addbytes).
 * Same contract as memcpy(3) for non-overlapping regions; the loop bound is discharged by unwinding assertions. */
#include <stddef.h>
void *memcpy(void *dst, const void *src, size_t n) {
    for(size_t i = 0; i < n; i++) ((char *)dst)[i] = ((const char *)src)[i];
    return dst;
}
