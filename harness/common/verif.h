/*
 * Common harness prelude.
 *
 * Every harness defines `struct inputs { ... }` (integer members, arrays of
 * integers and nested structs only) and then includes "verif_in.h".  ALL
 * nondeterminism of a harness enters through the single object `in`, so that
 * a CBMC counterexample is one struct value which the replay tool turns into
 * a C initialiser and runs against the natively compiled real code.
 */
#ifndef VERIF_H
#define VERIF_H
#include <stddef.h>
#include <stdint.h>
#include <string.h>
#include <errno.h>

#ifdef VERIF_REPLAY
#include <stdio.h>
#include <stdlib.h>
#define __CPROVER_assume(c)                                                   \
    do {                                                                      \
        if(!(c)) {                                                            \
            fprintf(stderr, "REPLAY: assumption not satisfied: %s\n", #c);    \
            exit(77);                                                         \
        }                                                                     \
    } while(0)
#define CHECK(c, msg)                                                         \
    do {                                                                      \
        if(!(c)) {                                                            \
            fprintf(stderr, "REPLAY: CHECK FAILED: %s [%s] at %s:%d\n", msg,  \
                    #c, __FILE__, __LINE__);                                  \
            fflush(stderr);                                                   \
            abort();                                                          \
        }                                                                     \
    } while(0)
#define WITNESS() ((void)0)
#else
#define CHECK(c, msg) __CPROVER_assert((c), msg)
#define WITNESS() __CPROVER_assert(0, "VERIF_WITNESS")
#endif

#define ASSUME(c) __CPROVER_assume(c)

/* a byte sink for the encoders */
#ifndef SINK_MAX
#define SINK_MAX 64
#endif
struct sink {
    unsigned char buf[SINK_MAX];
    size_t len;      /* bytes delivered so far (may exceed SINK_MAX: not stored) */
    int calls;       /* number of invocations */
    int fail_at;     /* invocation index that fails; <0: never */
    int failed;      /* a failure was injected */
};
static int sink_cb(const void *data, size_t size, void *key) {
    struct sink *s = (struct sink *)key;
    if(s->calls++ == s->fail_at) { s->failed = 1; return -1; }
    for(size_t i = 0; i < size; i++) {
        if(s->len + i < SINK_MAX) s->buf[s->len + i] = ((const unsigned char *)data)[i];
    }
    s->len += size;
    return 0;
}
static void sink_init(struct sink *s) { memset(s, 0, sizeof(*s)); s->fail_at = -1; }

#endif
