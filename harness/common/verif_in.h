/* included after `struct inputs` is defined */
#ifndef VERIF_IN_H
#define VERIF_IN_H
struct inputs in;
#ifdef VERIF_REPLAY
#include "replay_inputs.h" /* generated: static const struct inputs verif_replay_inputs */
#define VERIF_INPUTS_RAW() (in = verif_replay_inputs)
void harness(void);
int main(void) {
    harness();
    fprintf(stderr, "REPLAY: completed without violation\n");
    return 0;
}
#else
struct inputs nondet_inputs(void);
#define VERIF_INPUTS_RAW() (in = nondet_inputs())
#endif

/* Known findings: the engine proves the harness with the recorded predicates
 * excluded, and separately confirms that each recorded predicate still fails. */
#if defined(VERIF_KF_ONLY)
#define VERIF_INPUTS() do { VERIF_INPUTS_RAW(); __CPROVER_assume(VERIF_KF_ONLY); } while(0)
#elif defined(VERIF_KF_EXCLUDE)
#define VERIF_INPUTS() do { VERIF_INPUTS_RAW(); __CPROVER_assume(!(VERIF_KF_EXCLUDE)); } while(0)
#else
#define VERIF_INPUTS() VERIF_INPUTS_RAW()
#endif
#endif
