import sys, os
sys.path.insert(0, os.path.join(VERIF, 'harness'))
from typed_common import *
HARNESSES = []
for t, k in combos():
    tiers = ('quick', 'thorough') if t in QUICK_TYPES else ('thorough',)
    hb = ['-DINT_HARNESS_BOUND=8388607LL'] if (t, k) in HEAVY else []
    HARNESSES.append(typed(H, 'rt_%s_%s' % (t, k), 'typed/roundtrip.c', t, k, tiers=tiers, defines=hb, bounds=('|v| < 2^23 (unconstrained-length UPER integer)' if hb else ''),
                           functions=['%s codec on %s' % (k, t)], inputs='abstract value of %s (all fields symbolic)' % t))
