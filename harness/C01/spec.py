import sys, os
sys.path.insert(0, os.path.join(VERIF, 'harness'))
from typed_common import *
HARNESSES = []
for t in ['T_Seq']:
    for k in SY:
        HARNESSES.append(typed(H, 'rt_%s_%s' % (t, k), 'typed/roundtrip.c', t, k,
                               functions=['%s encode + decode of %s' % (k, t)], inputs='abstract value of %s (all fields symbolic)' % t))
