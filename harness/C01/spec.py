import sys, os
sys.path.insert(0, os.path.join(VERIF, 'harness'))
from typed_common import *
HARNESSES = []
for t, k in combos():
    tiers = ('quick', 'thorough') if t in QUICK_TYPES else ('thorough',)
    hb = ['-DINT_HARNESS_BOUND=8388607LL'] if (t, k) in HEAVY else []
    HARNESSES.append(typed(H, 'rt_%s_%s' % (t, k), 'typed/roundtrip.c', t, k, tiers=tiers, defines=hb, bounds=('|v| < 2^23 (unconstrained-length UPER integer)' if hb else ''),
                           functions=['%s codec on %s' % (k, t)], inputs='abstract value of %s (all fields symbolic)' % t))

# XER (BASIC and CANONICAL) round trip of the primitive types whose text needs no floating point
XEX = r'_print|random_fill|_oer|_uper|_aper|_ber|_der' + CB
for t in ('T_Bool', 'T_Null', 'T_Enum', 'T_Int8'):
    HARNESSES.append(typed(H, 'rtxer_%s' % t, 'typed/xer_roundtrip.c', t, 'der', exclude=XEX, models=['printf'], tiers=(('quick', 'thorough') if t in ('T_Bool', 'T_Null') else ('thorough',)),
                           defines=['-DSINK_MAX=48'], timeout=1800, maxdeepen=3000,
                           functions=['xer_encode + xer_decode of %s' % t], inputs='value of %s, BASIC or CANONICAL layout' % t,
                           bounds='text <= 40 characters'))
HARNESSES.append(typed(H, 'rtxerstrict_T_Bool', 'typed/xer_roundtrip.c', 'T_Bool', 'der', exclude=XEX, models=['printf'], tiers=('thorough',),
                       defines=['-DSINK_MAX=48', '-DSTRICT_CONSUME'], timeout=1800, maxdeepen=3000,
                       functions=['xer_encode + xer_decode of T-Bool, exact consumption'], inputs='value, BASIC or CANONICAL layout'))
