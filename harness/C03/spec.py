import sys, os
sys.path.insert(0, os.path.join(VERIF, 'harness'))
from typed_common import *
HARNESSES = []
# BER: symbolic length form per TLV + type-specific alternatives
for t, q in (('T_Seq', True), ('T_Set', True), ('T_Oct', True), ('T_SeqOf', True), ('T_Cho', True), ('T_Int', True), ('T_SeqX', False), ('T_Bits', False), ('T_Enum', False), ('T_OctU', False)):
    HARNESSES.append(typed(H, 'var_%s_ber' % t, 'typed/dec_variants.c', t, 'der', tiers=('quick', 'thorough') if q else ('thorough',),
                           functions=['BER decoder of %s' % t],
                           inputs='value of %s; per-TLV length form in {minimal, 0x81 nn, 0x82 00 nn, indefinite}; type-specific alternative (DEFAULT present / SET order / segmented string / unknown extension)' % t,
                           bounds='<= 8 TLVs; one unknown extension addition; string segmentation into 2 segments, one level'))
# unknown extension additions in PER and OER
for k in ('uper', 'oer'):
    HARNESSES.append(typed(H, 'var_T_Seq_unkext_%s' % k, 'typed/dec_variants.c', 'T_Seq', k,
                           functions=['%s decoder of T-Seq with an unknown extension addition' % k],
                           inputs='value of T-Seq + one unknown extension addition of one arbitrary octet', bounds='one addition'))
# the same with the length-form assignment ENUMERATED (symbolic forms move every offset and need > 240 s of solver
# time for T-Seq/T-Set); values and the type-specific alternatives stay symbolic
FORMS = {'long': '1,1,1,1,1,1,1,1', 'long0': '2,2,2,2,2,2,2,2', 'indef': '3,3,3,3,3,3,3,3', 'mix1': '0,1,2,3,0,1,2,3', 'mix2': '3,2,1,0,3,2,1,0', 'mix3': '1,0,3,2,1,0,3,2'}
for t in ('T_Seq', 'T_Set', 'T_Oct', 'T_SeqX'):
    for fn, ff in FORMS.items():
        HARNESSES.append(typed(H, 'varf_%s_%s_ber' % (t, fn), 'typed/dec_variants.c', t, 'der', defines=['-DFIXED_FORMS=' + ff],
                               tiers=('quick', 'thorough') if (t, fn) in (('T_Seq', 'long0'), ('T_Seq', 'indef'), ('T_Seq', 'mix1'), ('T_Set', 'indef'), ('T_Set', 'mix2')) else ('thorough',),
                               functions=['BER decoder of %s' % t],
                               inputs='value of %s; type-specific alternative symbolic; per-TLV length forms fixed to (%s) [0 minimal, 1 0x81 nn, 2 0x82 00 nn, 3 indefinite]' % (t, ff),
                               bounds='length-form assignment enumerated: %s' % fn))
OUTSIDE = ['XER alternative layouts (whitespace/comments)', 'nesting of constructed strings deeper than one level', 'more than one unknown extension']
