import sys, os
sys.path.insert(0, os.path.join(VERIF, 'harness'))
from typed_common import *
HARNESSES = []
# BER: symbolic length form per TLV + type-specific alternatives
for t, q in (('T_Seq', True), ('T_Set', True), ('T_Oct', True), ('T_SeqOf', True), ('T_Cho', True), ('T_Int', True), ('T_SeqX', False), ('T_Bits', False), ('T_Enum', False), ('T_OctU', False)):
    HARNESSES.append(typed(H, 'var_%s_ber' % t, 'typed/dec_variants.c', t, 'der', tiers=('quick', 'thorough') if q else ('thorough',),
                           functions=['BER decoder of %s' % t],
                           inputs='value of %s; per-TLV length form in {minimal, 0x81 nn, 0x82 00 nn, indefinite}; type-specific alternative (DEFAULT present / SET order / segmented string / unknown extension)' % t,
                           bounds='<= 8 TLVs; one unknown extension addition; string segmentation into 2 segments, one level'))
# unknown extension additions in PER and OER
for k in ('uper', 'oer'):
    HARNESSES.append(typed(H, 'var_T_Seq_unkext_%s' % k, 'typed/dec_variants.c', 'T_Seq', k,
                           functions=['%s decoder of T-Seq with an unknown extension addition' % k],
                           inputs='value of T-Seq + one unknown extension addition of one arbitrary octet', bounds='one addition'))
OUTSIDE = ['XER alternative layouts (whitespace/comments)', 'nesting of constructed strings deeper than one level', 'more than one unknown extension']
