import sys, os
sys.path.insert(0, os.path.join(VERIF, 'harness'))
from typed_common import *
ETYPES = ['E_Uni', 'E_Int', 'E_Ser', 'E_Exc', 'E_Gap', 'E_MinU', 'E_ExtA', 'E_Ref', 'E_Vals', 'E_SemiSer', 'E_P256', 'E_P257', 'E_Neg', 'E_MaxU']
Q = ['E_Uni', 'E_Int', 'E_Ser', 'E_Exc', 'E_Ref', 'E_Vals', 'E_P257', 'E_Neg', 'E_MaxU', 'E_MinU']
HARNESSES = []
for t in ETYPES:
    for k in ('uper', 'oer'):
        if (t, k) in (('E_MinU', 'uper'), ('E_ExtA', 'uper'), ('E_MaxU', 'uper')):
            continue   # unconstrained-length UPER integer: too slow, see DESIGN (covered for T_IntNeg bounded)
        tiers = ('quick', 'thorough') if t in Q else ('thorough',)
        hb = ['-DINT_HARNESS_BOUND=32767LL'] if (t, k) == ('E_ExtA', 'uper') else []
        HARNESSES.append(typed(H, 'eff_%s_%s' % (t, k), 'typed/enc_exact.c', t, k, tiers=tiers, defines=hb,
                               functions=['asn1c-generated %s codec of %s (constraint tables emitted by the current compiler)' % (k, t)],
                               inputs='every value of the root set (and, for the extensible type, every long outside it)',
                               bounds='constraint expression fixed per query; effective constraint transcribed by hand in asn1/drv/%s.h' % t))
# compiler-side kernel with symbolic bounds
HARNESSES.append(H('emit_oer_width', 'C09/emit_kernel.c', sources=[], incdirs=['libasn1compiler', 'libasn1fix', 'libasn1parser', 'libasn1common', 'libasn1print'],
                   models=['quiet'], functions=['emit_single_member_OER_constraint_value (libasn1compiler/asn1c_C.c)'],
                   inputs='lower and upper bound of an INTEGER range, both 64 bits symbolic', bounds='none',
                   note='asn1c_compiled_output replaced by a recording stub; asn1f_find_terminal_type_ex is the identity'))
HARNESSES.append(H('emit_per_bits', 'C09/emit_kernel.c', sources=[], defines=['-DPER_KERNEL'], incdirs=['libasn1compiler', 'libasn1fix', 'libasn1parser', 'libasn1common', 'libasn1print'],
                   models=['quiet'], functions=['emit_single_member_PER_constraint (libasn1compiler/asn1c_C.c)'], solver='race', timeout=900,
                   inputs='lower and upper bound of an INTEGER range (64 bits symbolic, width < 2^62), extensibility flag', bounds='range width < 2^62',
                   note='asn1c_compiled_output is a recording stub; asn1p_itoa (comment text only) is stubbed'))
ASSUMPTIONS = ['the effective (PER/OER-visible) constraint of each corpus expression is transcribed by hand from X.680/X.691 10.3/X.696 8.2 into the driver header; the reference encoder takes it as a parameter']
OUTSIDE = ['constraint expressions outside the corpus; the range algebra with symbolic leaf values (attempted, see DESIGN.md: CBMC needs >60 GB on libasn1fix/asn1fix_crange.c)', 'the -print-constraints text']
