/* C09/C02, compiler side, symbolic: the table emitters of libasn1compiler/asn1c_C.c applied to a range whose
 * edges are SYMBOLIC 64-bit values: the OER width/positive pair and the PER (flags, range bits, effective bits)
 * written into the generated constraint tables are those of X.696 10.2 and X.691 10.5.7 / 10.9.4.1.
 * asn1c_C.c is compiled by inclusion (the emitters are static); asn1c_compiled_output is a recording stub. */
#include "verif.h"
#include <stdarg.h>
#include "asn1c_C.c"

struct inputs { int64_t lb, ub; uint8_t ext; };
#include "verif_in.h"

static int per_seen, per_ext, per_rbits, per_ebits;
const char *asn1p_itoa(asn1c_integer_t v) { (void)v; return "0"; }
static char rec_fmt[64]; static long long rec_a[6]; static int rec_n; static int rec_calls;
int asn1c_compiled_output(arg_t *arg, const char *file, int lineno, const char *func, const char *fmt, ...) {
    (void)arg; (void)file; (void)lineno; (void)func;
    va_list ap; va_start(ap, fmt);
    rec_calls++;
    rec_n = 0;
    size_t i;
    for(i = 0; i < sizeof(rec_fmt) - 1 && fmt[i]; i++) rec_fmt[i] = fmt[i];
    rec_fmt[i] = 0;
    if(!strcmp(fmt, "{ %u, %u }")) { rec_a[0] = va_arg(ap, unsigned); rec_a[1] = va_arg(ap, unsigned); rec_n = 2; }
    if(!strncmp(fmt, "{ APC_CONSTRAINED%s", 19)) {
        const char *e1 = va_arg(ap, const char *); (void)va_arg(ap, const char *);
        per_ext = e1[0] != 0; per_rbits = va_arg(ap, int); per_ebits = va_arg(ap, int); per_seen = 1;
    }
    va_end(ap);
    return 0;
}
asn1p_expr_t *asn1f_find_terminal_type_ex(asn1p_t *asn, asn1_namespace_t *ns, asn1p_expr_t *expr) { (void)asn; (void)ns; return expr; }

void harness(void) {
    VERIF_INPUTS();
    ASSUME(in.lb <= in.ub);
    arg_t arg; memset(&arg, 0, sizeof(arg));
    asn1p_expr_t ex; memset(&ex, 0, sizeof(ex));
    ex.expr_type = ASN_BASIC_INTEGER; ex.meta_type = AMT_TYPE;
    arg.expr = &ex;
    asn1cnst_range_t r; memset(&r, 0, sizeof(r));
    r.left.type = ARE_VALUE; r.left.value = in.lb;
    r.right.type = ARE_VALUE; r.right.value = in.ub;
#ifdef PER_KERNEL
    /* X.691 10.5.7: a constrained whole number takes the minimum number of bits for the range;
     * 10.9.4.1: a length is 'constrained' (effective bits) only if the upper bound is below 64K */
    ASSUME(((__int128)in.ub - (__int128)in.lb) < ((__int128)1 << 62));
    r.extensible = in.ext & 1;
    per_seen = 0;
    emit_single_member_PER_constraint(&arg, &r, 0, "value");
    CHECK(per_seen, "a constrained entry is emitted for a closed range");
    unsigned __int128 rng = (unsigned __int128)((__int128)in.ub - in.lb) + 1;
    int rb = 0; while(((unsigned __int128)1 << rb) < rng) rb++;
    CHECK(per_rbits == rb, "range bits: least b with range <= 2^b");
    CHECK(per_ext == (in.ext & 1), "extensibility flag follows the range");
    int eb = (rng <= 65536 && in.ub < 65536) ? rb : -1;
    CHECK(per_ebits == eb, "effective bits (-1 when the range or the upper bound reaches 64K)");
    WITNESS();
    return;
#endif
    rec_calls = 0;
    int rc = emit_single_member_OER_constraint_value(&arg, &r);
    CHECK(rc == 0 && rec_calls == 1, "one table entry emitted");
    CHECK(rec_n == 2, "emitted as { width, positive }");
    /* X.696 10.2: (a) lb >= 0: unsigned 1/2/4/8 octets by upper bound; (b) otherwise signed 1/2/4/8 if both bounds fit */
    unsigned w, pos;
    if(in.lb >= 0) { pos = 1; w = in.ub <= 255 ? 1 : in.ub <= 65535 ? 2 : in.ub <= 4294967295LL ? 4 : 8; }
    else { pos = 0; w = (in.lb >= -128 && in.ub <= 127) ? 1 : (in.lb >= -32768 && in.ub <= 32767) ? 2 : (in.lb >= -2147483648LL && in.ub <= 2147483647LL) ? 4 : 8; }
    if(rec_n == 2) CHECK(rec_a[0] == w && rec_a[1] == pos, "OER width and sign per X.696 10.2");
    /* not OER-visible (extensible) ranges emit { 0, 0 } */
    r.not_OER_visible = 1; rec_calls = 0;
    emit_single_member_OER_constraint_value(&arg, &r);
    CHECK(rec_calls == 1 && !strcmp(rec_fmt, "{ 0, 0 }"), "not OER-visible: no fixed width");
    WITNESS();
}
