import sys, os
sys.path.insert(0, os.path.join(VERIF, 'harness'))
from typed_common import *
HARNESSES = []
import os as _os
FX = ['-DFIXED_INPUT'] if _os.environ.get('VERIF_EXP_FIXED') else []
Q = ['T_Seq', 'T_SeqX1', 'T_SeqX', 'T_Cho', 'T_SeqOf', 'T_Oct', 'T_Bits', 'T_IntX', 'T_SetOf', 'T_Set', 'T_Enum']
for t, k in combos():
    n = 4 if t in ('T_Seq', 'T_SeqX', 'T_Cho', 'T_SeqOf', 'T_SetOf', 'T_Set') else 5
    # T_IntSemi/oer is quick since its thorough run found the zero-length over-read of INTEGER_decode_oer (fixed in /repo)
    tiers = ('quick', 'thorough') if t in Q or (t, k) == ('T_IntSemi', 'oer') else ('thorough',)
    HARNESSES.append(typed(H, 'dec_%s_%s' % (t, k), 'typed/dec_arbitrary.c', t, k, tiers=tiers, leak=True,
                           defines=['-DNBYTES=%d' % n] + FX, functions=['%s decoder of %s; asn_check_constraints; der_encode; free' % (k, t)],
                           inputs='%d arbitrary octets in an exact-size heap object, symbolic size 0..%d' % (n, n), bounds='input <= %d octets' % n,
                           exclude=EXC[k]))
    n2 = 6 if n == 4 else 8
    HARNESSES.append(typed(H, 'declong_%s_%s' % (t, k), 'typed/dec_arbitrary.c', t, k, tiers=('thorough',), leak=True,
                           defines=['-DNBYTES=%d' % n2], functions=['%s decoder of %s; free' % (k, t)], timeout=1800, maxdeepen=3000,
                           inputs='%d arbitrary octets in an exact-size heap object, symbolic size 0..%d' % (n2, n2), bounds='input <= %d octets' % n2,
                           exclude=EXC[k]))
    HARNESSES.append(typed(H, 'decpost_%s_%s' % (t, k), 'typed/dec_arbitrary.c', t, k, tiers=('thorough',), leak=True,
                           defines=['-DNBYTES=%d' % n, '-DPOSTOPS'], functions=['%s decoder of %s, then asn_check_constraints, der_encode, free' % (k, t)],
                           inputs='%d arbitrary octets in an exact-size heap object, symbolic size' % n, bounds='input <= %d octets' % n))
