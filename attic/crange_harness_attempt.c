/*
 * C09 (compiler side): the real range algebra of libasn1fix (asn1fix_crange.c) applied to a constraint tree of a
 * fixed SHAPE whose leaf values are symbolic 64-bit integers, compared with the set semantics of the tree
 * computed directly in the harness for a further symbolic x.
 *   PER (-DVIS_PER) / OER (-DVIS_OER) visibility variants.
 */
#include "verif.h"
#include <asn1fix_internal.h>
#include <asn1fix_crange.h>

struct inputs { int64_t a, b, c, d, e, f; int64_t x; };
#include "verif_in.h"

static asn1p_value_t *V(int64_t v) { asn1p_value_t *p = asn1p_value_fromint(v); ASSUME(p != 0); return p; }
static asn1p_value_t *VT(int t) { asn1p_value_t *p = (asn1p_value_t *)calloc(1, sizeof(*p)); ASSUME(p != 0); p->type = t; return p; }
static asn1p_constraint_t *CT(enum asn1p_constraint_type_e t) { asn1p_constraint_t *c = asn1p_constraint_new(1, 0); ASSUME(c != 0); c->type = t; return c; }
static asn1p_constraint_t *RANGE(asn1p_value_t *lo, asn1p_value_t *hi) { asn1p_constraint_t *c = CT(ACT_EL_RANGE); c->range_start = lo; c->range_stop = hi; return c; }
static asn1p_constraint_t *VALUE(asn1p_value_t *v) { asn1p_constraint_t *c = CT(ACT_EL_VALUE); c->value = v; return c; }
static asn1p_constraint_t *ARR2(enum asn1p_constraint_type_e t, asn1p_constraint_t *p, asn1p_constraint_t *q) {
    asn1p_constraint_t *c = CT(t); ASSUME(asn1p_constraint_insert(c, p) == 0); if(q) ASSUME(asn1p_constraint_insert(c, q) == 0); return c; }
static asn1p_constraint_t *ARR3(enum asn1p_constraint_type_e t, asn1p_constraint_t *p, asn1p_constraint_t *q, asn1p_constraint_t *r) {
    asn1p_constraint_t *c = ARR2(t, p, q); ASSUME(asn1p_constraint_insert(c, r) == 0); return c; }
#define A in.a
#define B in.b
#define C in.c
#define D in.d
#define E in.e
#define F in.f
#define BETW(x, lo, hi) ((x) >= (lo) && (x) <= (hi))

/* shape catalogue: tree, root-set membership, extensibility, unbounded-below/above flags, validity of leaves */
#if SHAPE == 1        /* (a..b) */
#define LEAVES_OK (A <= B)
#define TREE ARR2(ACT_CA_SET, RANGE(V(A), V(B)), 0)
#define IN(x) BETW(x, A, B)
#define EXT 0
#define UNB_LO 0
#define UNB_HI 0
#elif SHAPE == 2      /* (a..b | c..d) */
#define LEAVES_OK (A <= B && C <= D)
#define TREE ARR2(ACT_CA_SET, ARR2(ACT_CA_UNI, RANGE(V(A), V(B)), RANGE(V(C), V(D))), 0)
#define IN(x) (BETW(x, A, B) || BETW(x, C, D))
#define EXT 0
#define UNB_LO 0
#define UNB_HI 0
#elif SHAPE == 3      /* (a..b ^ c..d) */
#define LEAVES_OK (A <= B && C <= D)
#define TREE ARR2(ACT_CA_SET, ARR2(ACT_CA_INT, RANGE(V(A), V(B)), RANGE(V(C), V(D))), 0)
#define IN(x) (BETW(x, A, B) && BETW(x, C, D))
#define EXT 0
#define UNB_LO 0
#define UNB_HI 0
#elif SHAPE == 4      /* (a..b)(c..d): serial application; X.680 requires the second to be a subset of the first */
#define LEAVES_OK (A <= B && C <= D && A <= C && D <= B)
#define TREE ARR2(ACT_CA_SET, RANGE(V(A), V(B)), RANGE(V(C), V(D)))
#define IN(x) (BETW(x, A, B) && BETW(x, C, D))
#define EXT 0
#define UNB_LO 0
#define UNB_HI 0
#elif SHAPE == 5      /* (a..b, ...) */
#define LEAVES_OK (A <= B)
#define TREE ARR2(ACT_CA_SET, ARR2(ACT_CA_CSV, RANGE(V(A), V(B)), CT(ACT_EL_EXT)), 0)
#define IN(x) BETW(x, A, B)
#define EXT 1
#define UNB_LO 0
#define UNB_HI 0
#elif SHAPE == 6      /* (a..b, ..., c..d): additions do not change the root */
#define LEAVES_OK (A <= B && C <= D)
#define TREE ARR2(ACT_CA_SET, ARR3(ACT_CA_CSV, RANGE(V(A), V(B)), CT(ACT_EL_EXT), RANGE(V(C), V(D))), 0)
#define IN(x) BETW(x, A, B)
#define EXT 1
#define UNB_LO 0
#define UNB_HI 0
#elif SHAPE == 7      /* (MIN..b) */
#define LEAVES_OK 1
#define TREE ARR2(ACT_CA_SET, RANGE(VT(ATV_MIN), V(B)), 0)
#define IN(x) ((x) <= B)
#define EXT 0
#define UNB_LO 1
#define UNB_HI 0
#elif SHAPE == 8      /* (a..MAX) */
#define LEAVES_OK 1
#define TREE ARR2(ACT_CA_SET, RANGE(V(A), VT(ATV_MAX)), 0)
#define IN(x) ((x) >= A)
#define EXT 0
#define UNB_LO 0
#define UNB_HI 1
#elif SHAPE == 9      /* (a) */
#define LEAVES_OK 1
#define TREE ARR2(ACT_CA_SET, VALUE(V(A)), 0)
#define IN(x) ((x) == A)
#define EXT 0
#define UNB_LO 0
#define UNB_HI 0
#elif SHAPE == 10     /* (a | c | e): three single values */
#define LEAVES_OK 1
#define TREE ARR2(ACT_CA_SET, ARR3(ACT_CA_UNI, VALUE(V(A)), VALUE(V(C)), VALUE(V(E))), 0)
#define IN(x) ((x) == A || (x) == C || (x) == E)
#define EXT 0
#define UNB_LO 0
#define UNB_HI 0
#elif SHAPE == 11     /* ((a..b | c..d) ^ e..f) */
#define LEAVES_OK (A <= B && C <= D && E <= F)
#define TREE ARR2(ACT_CA_SET, ARR2(ACT_CA_INT, ARR2(ACT_CA_UNI, RANGE(V(A), V(B)), RANGE(V(C), V(D))), RANGE(V(E), V(F))), 0)
#define IN(x) ((BETW(x, A, B) || BETW(x, C, D)) && BETW(x, E, F))
#define EXT 0
#define UNB_LO 0
#define UNB_HI 0
#elif SHAPE == 12     /* (a..b)(c..d)(e..f): chain of three serial constraints */
#define LEAVES_OK (A <= B && C <= D && E <= F && A <= C && D <= B && C <= E && F <= D)
#define TREE ARR3(ACT_CA_SET, RANGE(V(A), V(B)), RANGE(V(C), V(D)), RANGE(V(E), V(F)))
#define IN(x) (BETW(x, A, B) && BETW(x, C, D) && BETW(x, E, F))
#define EXT 0
#define UNB_LO 0
#define UNB_HI 0
#elif SHAPE == 13     /* (a..b | c..d, ...) */
#define LEAVES_OK (A <= B && C <= D)
#define TREE ARR2(ACT_CA_SET, ARR2(ACT_CA_CSV, ARR2(ACT_CA_UNI, RANGE(V(A), V(B)), RANGE(V(C), V(D))), CT(ACT_EL_EXT)), 0)
#define IN(x) (BETW(x, A, B) || BETW(x, C, D))
#define EXT 1
#define UNB_LO 0
#define UNB_HI 0
#else
#error "unknown SHAPE"
#endif

static int edge_le(const asn1cnst_edge_t *e, int64_t x) {   /* e <= x */
    return e->type == ARE_MIN || (e->type == ARE_VALUE && e->value <= (asn1c_integer_t)x);
}
static int edge_ge(const asn1cnst_edge_t *e, int64_t x) {   /* e >= x */
    return e->type == ARE_MAX || (e->type == ARE_VALUE && e->value >= (asn1c_integer_t)x);
}

void harness(void) {
    VERIF_INPUTS();
    ASSUME(LEAVES_OK);
    asn1p_constraint_t *ct = TREE;
#ifdef VIS_OER
    asn1cnst_range_t *r = asn1constraint_compute_OER_range("T", ASN_BASIC_INTEGER, ct, ACT_EL_RANGE, 0, 0, 0);
#else
    asn1cnst_range_t *r = asn1constraint_compute_PER_range("T", ASN_BASIC_INTEGER, ct, ACT_EL_RANGE, 0, 0, 0);
#endif
    CHECK(r != 0, "the range algebra yields a result (never dies)");
    if(!r) return;
    CHECK(!r->incompatible, "an INTEGER value constraint is compatible");
    CHECK(!!r->extensible == EXT, "extensible exactly when the constraint has a top-level extension marker");
#ifdef VIS_OER
    if(EXT) { CHECK(r->not_OER_visible, "extensible constraints are not OER-visible (X.696 8.2.4)"); WITNESS(); return; }
#endif
    int x_in = IN(in.x);
    /* is the root set empty?  (only intersections can be empty here) */
    if(r->empty_constraint) {
        CHECK(!x_in, "an empty effective constraint contains no value");
    } else {
        /* bounds: every member lies within [left, right] */
        if(x_in) CHECK(edge_le(&r->left, in.x) && edge_ge(&r->right, in.x), "every value of the root set lies within [left, right]");
        /* tightness: the edges themselves are members (so they are the minimum and maximum) */
        if(r->left.type == ARE_VALUE) {
            CHECK(r->left.value >= (asn1c_integer_t)INT64_MIN && r->left.value <= (asn1c_integer_t)INT64_MAX && IN((int64_t)r->left.value), "left edge is a member of the root set (it is the minimum)");
        } else CHECK(r->left.type == ARE_MIN && UNB_LO, "MIN edge only for a set unbounded below");
        if(r->right.type == ARE_VALUE) {
            CHECK(r->right.value >= (asn1c_integer_t)INT64_MIN && r->right.value <= (asn1c_integer_t)INT64_MAX && IN((int64_t)r->right.value), "right edge is a member of the root set (it is the maximum)");
        } else CHECK(r->right.type == ARE_MAX && UNB_HI, "MAX edge only for a set unbounded above");
        /* pieces: exact membership, sorted, disjoint */
        if(r->el_count > 0) {
            int hit = 0;
            for(int i = 0; i < 4; i++) if(i < r->el_count) {
                const asn1cnst_range_t *p = r->elements[i];
                if(edge_le(&p->left, in.x) && edge_ge(&p->right, in.x)) hit++;
                if(i + 1 < r->el_count) {
                    const asn1cnst_range_t *q = r->elements[i + 1];
                    CHECK(p->right.type == ARE_VALUE && q->left.type == ARE_VALUE && p->right.value < q->left.value, "pieces are sorted and disjoint");
                }
            }
            CHECK(r->el_count <= 4, "at most four pieces for these shapes");
            CHECK(hit == (x_in ? 1 : 0), "x lies in exactly one piece iff x is in the root set");
        }
    }
    WITNESS();
}
