SK = ['asn1-tools/unber/libasn1_unber_tool.c']    # the tool #includes the skeleton units it needs (PER/OER disabled)
HARNESSES = [
    H('unber_safety_3', 'C20/unber_safety.c', sources=SK, incdirs=['asn1-tools/unber', 'libasn1parser', 'libasn1common'], models=['quiet', 'printf', 'realloc'],
      defines=['-DNBYTES=3'], unwind_default=6, timeout=1800, maxdeepen=1800,
      functions=['unber_stream', 'process_deeper', 'print_TL', 'print_V'], inputs='3 arbitrary octets, symbolic size', bounds='input <= 3 octets; every loop unwound 6 times by default'),
]
OUTSIDE = ['the enber inverse (text level)', 'field agreement', 'inputs longer than 3 octets']
