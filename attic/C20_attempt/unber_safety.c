/* C20 (safety clause): unber on N arbitrary octets terminates with 0 or -1 and no memory error.
 * The tool is driven through its input_stream_t / output_stream_t function tables; output formatting is a stub. */
#include "verif.h"
#include <stdarg.h>
#include <sys/types.h>
#include <libasn1_unber_tool.h>
#ifndef NBYTES
#define NBYTES 3
#endif
struct inputs { uint8_t buf[NBYTES]; uint8_t size; };
#include "verif_in.h"
struct mystream { input_stream_t is; size_t pos; };
static int my_next(input_stream_t *s) { struct mystream *m = (struct mystream *)s; if(m->pos >= in.size) return -1; return in.buf[m->pos++]; }
static off_t my_read(input_stream_t *s) { return (off_t)((struct mystream *)s)->pos; }
static int out_calls;
static int my_vprintf(output_stream_t *o, const char *fmt, va_list ap) { (void)o; (void)fmt; (void)ap; out_calls++; return 0; }
void harness(void) {
    VERIF_INPUTS();
    ASSUME(in.size <= NBYTES);
    struct mystream ms; ms.is.nextChar = my_next; ms.is.bytesRead = my_read; ms.pos = 0;
    output_stream_t os; os.vprintf = my_vprintf; os.vprintfError = my_vprintf;
    int r = unber_stream("in", &ms.is, &os);
    CHECK(r == 0 || r == -1, "unber returns 0 or -1");
    CHECK(ms.pos <= in.size, "never reads past the end of the input");
    WITNESS();
}
