/*
 * Reference encoders written from the standards (X.690 DER, X.691 UPER,
 * X.696 COER).  They share no code with asn1c; they are the oracle of
 * C02/C03 and the value-equality oracle of the other typed harnesses.
 * Bounded to what the corpus needs: tag numbers < 2^28, lengths < 2^31.
 */
#ifndef REF_ENC_H
#define REF_ENC_H
#include <stdint.h>
#include <stddef.h>

/* ------------------------------------------------------------------ DER */
struct rbuf { uint8_t *p; size_t n; size_t cap; };
static void rb_put(struct rbuf *b, uint8_t c) { if(b->n < b->cap) b->p[b->n] = c; b->n++; }
static void rb_puts(struct rbuf *b, const uint8_t *s, size_t n) { for(size_t i = 0; i < n; i++) rb_put(b, s[i]); }

#define CL_UNIV 0x00
#define CL_APPL 0x40
#define CL_CTX  0x80
#define CL_PRIV 0xC0
#define CONSTRUCTED 0x20

/* X.690 8.1.2: identifier octets */
static void der_tag(struct rbuf *b, unsigned cls_pc, uint32_t num) {
    if(num < 31) { rb_put(b, (uint8_t)(cls_pc | num)); return; }
    rb_put(b, (uint8_t)(cls_pc | 31));
    int n = 1;
    for(uint32_t t = num >> 7; t; t >>= 7) n++;
    for(int i = n - 1; i >= 0; i--) rb_put(b, (uint8_t)(((num >> (7 * i)) & 0x7f) | (i ? 0x80 : 0)));
}
/* X.690 8.1.3 + 10.1: definite, shortest form */
static void der_len(struct rbuf *b, size_t len) {
    if(len < 128) { rb_put(b, (uint8_t)len); return; }
    int n = 0;
    for(size_t t = len; t; t >>= 8) n++;
    rb_put(b, (uint8_t)(0x80 | n));
    for(int i = n - 1; i >= 0; i--) rb_put(b, (uint8_t)(len >> (8 * i)));
}
/* BER alternatives (C03): when ref_lf is set, each TLV takes its length form from the next entry:
 * 0 minimal definite, 1 long form 0x81 nn, 2 long form with a leading zero octet 0x82 00 nn,
 * 3 indefinite (constructed encodings only; primitive ones fall back to form 1). */
struct lenforms { uint8_t f[8]; int next; };
static struct lenforms *ref_lf = 0;
static int ref_next_form(void) { if(!ref_lf) return 0; int i = ref_lf->next++; return i < 8 ? ref_lf->f[i] : 0; }
static void ber_len_form(struct rbuf *b, size_t len, int form) {
    if(form == 1 && len < 256) { rb_put(b, 0x81); rb_put(b, (uint8_t)len); }
    else if(form == 2 && len < 256) { rb_put(b, 0x82); rb_put(b, 0); rb_put(b, (uint8_t)len); }
    else der_len(b, len);
}
static void x_len(struct rbuf *b, size_t len) { int f = ref_next_form(); ber_len_form(b, len, f == 3 ? 1 : f); }
/* constructed TLV around an already encoded body */
static void x_constructed(struct rbuf *o, unsigned cls_pc, uint32_t num, const uint8_t *body, size_t blen) {
    int f = ref_next_form();
    der_tag(o, cls_pc | CONSTRUCTED, num);
    if(f == 3) { rb_put(o, 0x80); rb_puts(o, body, blen); rb_put(o, 0); rb_put(o, 0); }
    else { ber_len_form(o, blen, f); rb_puts(o, body, blen); }
}
/* number of content octets of the minimal two's complement form (X.690 8.3) */
static int int_octets(int64_t v) {
    int n = 1;
    while(n < 8) {
        int64_t top = v >> (8 * n - 1); /* arithmetic shift: all-zeros or all-ones if it fits in n octets */
        if(top == 0 || top == -1) break;
        n++;
    }
    return n;
}
static void put_int_octets(struct rbuf *b, int64_t v, int n) {
    for(int i = n - 1; i >= 0; i--) rb_put(b, (uint8_t)((uint64_t)v >> (8 * i)));
}
static int uint_octets(uint64_t v) { int n = 1; for(uint64_t t = v >> 8; t; t >>= 8) n++; return n; }
static void put_uint_octets(struct rbuf *b, uint64_t v, int n) {
    for(int i = n - 1; i >= 0; i--) rb_put(b, (uint8_t)(v >> (8 * i)));
}
static void der_int_tagged(struct rbuf *b, unsigned cls_pc, uint32_t num, int64_t v) {
    int n = int_octets(v);
    der_tag(b, cls_pc, num); x_len(b, (size_t)n); put_int_octets(b, v, n);
}
static void der_bool_tagged(struct rbuf *b, unsigned cls_pc, uint32_t num, int v) {
    der_tag(b, cls_pc, num); x_len(b, 1); rb_put(b, v ? 0xff : 0x00);
}
static void der_octets_tagged(struct rbuf *b, unsigned cls_pc, uint32_t num, const uint8_t *s, size_t n) {
    der_tag(b, cls_pc, num); x_len(b, n); rb_puts(b, s, n);
}
/* BIT STRING of nbits bits taken MSB-first from s; unused bits cleared (X.690 11.2.1) */
static void der_bits_tagged(struct rbuf *b, unsigned cls_pc, uint32_t num, const uint8_t *s, size_t nbits) {
    size_t nb = (nbits + 7) / 8;
    unsigned unused = (unsigned)(nb * 8 - nbits);
    der_tag(b, cls_pc, num); x_len(b, nb + 1); rb_put(b, (uint8_t)unused);
    for(size_t i = 0; i < nb; i++) {
        uint8_t c = s[i];
        if(i == nb - 1 && unused) c &= (uint8_t)(0xff << unused);
        rb_put(b, c);
    }
}

/* ---------------------------------------------------------------- UPER */
struct bitw { uint8_t *p; size_t nbits; size_t capbytes; };
static void bw_bit(struct bitw *w, int bit) {
    size_t byte = w->nbits >> 3;
    if(byte < w->capbytes) {
        if((w->nbits & 7) == 0) w->p[byte] = 0;
        if(bit) w->p[byte] |= (uint8_t)(0x80 >> (w->nbits & 7));
    }
    w->nbits++;
}
static void bw_bits(struct bitw *w, uint64_t v, int n) { for(int i = n - 1; i >= 0; i--) bw_bit(w, (int)((v >> i) & 1)); }
static void bw_octets(struct bitw *w, const uint8_t *s, size_t n) { for(size_t i = 0; i < n; i++) bw_bits(w, s[i], 8); }
/* X.691 11.1: complete encoding is at least one octet; pad to octet */
static size_t bw_finish(struct bitw *w) {
    if(w->nbits == 0) bw_bits(w, 0, 8);
    while(w->nbits & 7) bw_bit(w, 0);
    return w->nbits >> 3;
}
static int bits_for_range(uint64_t range_minus_1) { /* number of bits for values 0..range_minus_1 */
    int n = 0;
    while(range_minus_1) { n++; range_minus_1 >>= 1; }
    return n;
}
/* 10.5 constrained whole number, unaligned: minimum number of bits */
static void uper_constrained(struct bitw *w, int64_t v, int64_t lb, int64_t ub) {
    uint64_t r1 = (uint64_t)ub - (uint64_t)lb;
    bw_bits(w, (uint64_t)v - (uint64_t)lb, bits_for_range(r1));
}
/* 10.9 general length determinant for n < 16384 (fragmentation handled by callers that need it) */
static void uper_length(struct bitw *w, size_t n) {
    if(n < 128) bw_bits(w, n, 8);
    else { bw_bits(w, 2, 2); bw_bits(w, n, 14); }
}
/* 10.8 unconstrained whole number */
static void uper_unconstrained(struct bitw *w, int64_t v) {
    int n = int_octets(v);
    uper_length(w, (size_t)n);
    for(int i = n - 1; i >= 0; i--) bw_bits(w, (uint8_t)((uint64_t)v >> (8 * i)), 8);
}
/* 10.7 semi-constrained whole number */
static void uper_semiconstrained(struct bitw *w, int64_t v, int64_t lb) {
    uint64_t d = (uint64_t)v - (uint64_t)lb;
    int n = uint_octets(d);
    uper_length(w, (size_t)n);
    for(int i = n - 1; i >= 0; i--) bw_bits(w, (uint8_t)(d >> (8 * i)), 8);
}
/* 10.6 normally small non-negative whole number */
static void uper_nsnnwn(struct bitw *w, uint64_t v) {
    if(v < 64) { bw_bit(w, 0); bw_bits(w, v, 6); }
    else { bw_bit(w, 1); uper_semiconstrained(w, (int64_t)v, 0); }
}

/* ---------------------------------------------------------------- COER */
/* X.696 8.6 length determinant */
static void oer_len(struct rbuf *b, size_t n) {
    if(n < 128) { rb_put(b, (uint8_t)n); return; }
    int k = 0;
    for(size_t t = n; t; t >>= 8) k++;
    rb_put(b, (uint8_t)(0x80 | k));
    for(int i = k - 1; i >= 0; i--) rb_put(b, (uint8_t)(n >> (8 * i)));
}
/* X.696 10: INTEGER with OER-visible bounds. has_lb/has_ub say whether a finite bound is visible. */
static void oer_int(struct rbuf *b, int64_t v, int has_lb, int64_t lb, int has_ub, uint64_t ub_u, int64_t ub) {
    if(has_lb && lb >= 0) {
        if(has_ub) {
            int w = ub_u <= 0xff ? 1 : ub_u <= 0xffff ? 2 : ub_u <= 0xffffffffu ? 4 : 8;
            put_uint_octets(b, (uint64_t)v, w); return;
        }
        int n = uint_octets((uint64_t)v);
        oer_len(b, (size_t)n); put_uint_octets(b, (uint64_t)v, n); return;
    }
    if(has_lb && has_ub) {
        int w = 0;
        if(lb >= -128 && ub <= 127) w = 1;
        else if(lb >= -32768 && ub <= 32767) w = 2;
        else if(lb >= -2147483648LL && ub <= 2147483647LL) w = 4;
        else w = 8;
        put_int_octets(b, v, w); return;
    }
    int n = int_octets(v);
    oer_len(b, (size_t)n); put_int_octets(b, v, n);
}
/* X.696 11: ENUMERATED */
static void oer_enum(struct rbuf *b, int64_t v) {
    if(v >= 0 && v <= 127) { rb_put(b, (uint8_t)v); return; }
    int n = int_octets(v);
    rb_put(b, (uint8_t)(0x80 | n)); put_int_octets(b, v, n);
}
/* X.696 8.7: tag as used by CHOICE */
static void oer_tag(struct rbuf *b, unsigned cls, uint32_t num) {
    if(num < 63) { rb_put(b, (uint8_t)(cls | num)); return; }
    rb_put(b, (uint8_t)(cls | 63));
    int n = 1;
    for(uint32_t t = num >> 7; t; t >>= 7) n++;
    for(int i = n - 1; i >= 0; i--) rb_put(b, (uint8_t)(((num >> (7 * i)) & 0x7f) | (i ? 0x80 : 0)));
}
/* X.696 17: quantity of SEQUENCE OF / SET OF: length-prefixed unsigned */
static void oer_quantity(struct rbuf *b, size_t n) {
    int k = uint_octets(n);
    rb_put(b, (uint8_t)k); put_uint_octets(b, n, k);
}
#endif
